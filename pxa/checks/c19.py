"""C19 - discovery / spanning tree (partial property, structural part).

 D1 link life-cycle: adjacency written only by the probe handler (insert/refresh) and _delete_links (pop);
    LinkEvent(added) only together with a first insert; LinkEvent(removed) only in _delete_links, once per
    link, paired with its pop; withdrawn links are drawn from the adjacency; a switch going down withdraws
    links with the dpid on either end; expiry compares timestamp + timeout with now on a recurring timer
 D2 probe writer / reader agreement: 'dpid:' + hex ... [5:], base 16; str(port) / isdigit+int; TLV order vs
    the indices read; the textual dpid form is tried before the 8-byte binary fallback; link direction
 D3 flood-bit push: flood = in tree or edge port; mask/config use the NO_FLOOD constant; skip only when the
    previous bit equals the new one
 D4 link culling picks ONE link for both directions (cross-write from the same link object)
 N  forest / spanning correctness of the traversal for every graph - not decided (algorithmic, value-level)
"""
import ast
from .. import q, defs, ofreg
from ..model import AnalysisError, calls_in, call_name, norm, kwarg, walk_no_nested

EXPLAIN = ("R-OWN writers of the adjacency; R-DOM/R-EFFECT LinkEvent(add) with first insert, LinkEvent(remove) paired with pop; "
           "R-AGREE probe writer vs reader constants (prefix, slice, base, TLV order), textual-before-binary ordering; R-AGREE flood-bit "
           "computation and port-mod constants; R-AGREE symmetric link choice in the culling loop. Decides these necessary conditions; "
           "the spanning-forest property of _calc_spanning_tree for every graph is NOT decided (value-level algorithmic property).")
DISC = 'openflow.discovery'; ST = 'openflow.spanning_tree'

def run (ctx):
  ctx.explanation = EXPLAIN
  ctx.assumptions = ["LLDP TLV classes carry their fields as written by _create_discovery_packet"]
  repo = ctx.repo
  dmod = repo.mod(DISC); smod = repo.mod(ST)
  disc = repo.cls(DISC, 'Discovery'); snd = repo.cls(DISC, 'LLDPSender')
  pin = q.find_method(repo, disc, '_handle_openflow_PacketIn', 'C19'); dl = q.find_method(repo, disc, '_delete_links', 'C19')
  exp = q.find_method(repo, disc, '_expire_links', 'C19'); cdown = q.find_method(repo, disc, '_handle_openflow_ConnectionDown', 'C19')
  mk = q.find_method(repo, snd, '_create_discovery_packet', 'C19')
  for f in (pin, dl, exp, cdown, mk): ctx.analysed(f)

  # ---- D1 ownership ------------------------------------------------------------------------
  nw = 0
  for m in repo.modules.values():
    if 'adjacency' not in m.src: continue
    for cls in m.classes.values():
      for f in cls.methods.values():
        for kind, site in q.mutations_of_attr(f.node, 'adjacency'):
          base = site.func.value if isinstance(site, ast.Call) else None
          txt = norm(site)
          if cls is not disc and 'openflow_discovery' not in txt: continue      # same name in unrelated classes
          nw += 1
          good = cls is disc and (f.name in ('_handle_openflow_PacketIn', '_delete_links') or (f.name == '__init__' and kind == 'rebind'))
          ctx.ob('R-OWN', f, "adjacency written only by the probe handler and _delete_links (%s)" % kind, good, f.name if good else "%s changes the adjacency without announcing a LinkEvent" % f.qual, (m, site), 'D1')
    for f in m.funcs.values():
      for kind, site in q.mutations_of_attr(f.node, 'adjacency'):
        if 'openflow_discovery' in norm(site) or m is dmod:
          nw += 1
          ctx.bad('R-OWN', f, "adjacency written only by the probe handler and _delete_links (%s)" % kind, "%s changes the adjacency" % f.qual, (m, site), 'D1')
  ctx.floor('adjacency writers', nw, 3)
  g = q.cfg_of(pin)
  ins = [q.enclosing_stmt_node(g, st) for t, v, st, k in q.stores_in(pin.node, nested=False) if isinstance(t, ast.Subscript) and norm(t.value) == 'self.adjacency']
  addev = g.nodes_with_call(lambda c: call_name(c) in ('raiseEventNoErrors', 'raiseEvent') and len(c.args) >= 2 and norm(c.args[0]) == 'LinkEvent' and norm(c.args[1]) == 'True')
  anyev = g.nodes_with_call(lambda c: call_name(c) in ('raiseEventNoErrors', 'raiseEvent') and c.args and norm(c.args[0]) == 'LinkEvent')
  ctx.floor('link-added raise site', len(addev), 1)
  for e in addev:
    fs = q.fact_strs(g, e)
    good = 'link not in self.adjacency' in fs
    ctx.ob('R-DOM', pin, "a link is announced as added only when it was not yet in the adjacency", good, "under `link not in self.adjacency`" if good else
           "LinkEvent(True) is raised without the not-yet-known test (facts %s): every refreshing probe announces the link again" % [f for f in fs if 'adjacency' in f], (dmod, e.ast), 'D1')
    first = [i for i in ins if 'link not in self.adjacency' in q.fact_strs(g, i)]
    good = bool(first) and any(g.dominates(i, e) or g.postdominates(i, e) for i in first)
    ctx.ob('R-EFFECT', pin, "the announcement goes together with the insert", good, "insert and raise on the same branch" if good else "link announced but not stored (or vice versa)", (dmod, e.ast), 'D1')
    c = [c for c in q.node_calls(e) if c.args and norm(c.args[0]) == 'LinkEvent'][0]
    ctx.ob('R-AGREE', pin, "the announced link is the stored one", len(c.args) >= 3 and norm(c.args[2]) == 'link', norm(c)[:70], (dmod, c), 'D1')
  for e in anyev:
    if e not in addev: ctx.bad('R-OWN', pin, "probe handling announces only additions", "`%s`" % e.text(60), (dmod, e.ast), 'D1')
  for i in ins:
    st = i.ast
    ctx.ob('R-AGREE', pin, "adjacency entries are keyed by the link and stamped with the current time (`%s`)" % norm(st)[:40], norm(st.targets[0].slice) == 'link' and norm(st.value) == 'time.time()', norm(st), (dmod, st), 'D1')
  g2 = q.cfg_of(dl); lp = dl.params[1]
  rmev = g2.nodes_with_call(lambda c: call_name(c) in ('raiseEventNoErrors', 'raiseEvent') and len(c.args) >= 2 and norm(c.args[0]) == 'LinkEvent' and norm(c.args[1]) == 'False')
  pops = g2.nodes_with_call(lambda c: call_name(c) in ('pop',) and norm(c.func.value) == 'self.adjacency') + \
         [q.enclosing_stmt_node(g2, s) for k, s in q.mutations_of_attr(dl.node, 'adjacency') if k == 'delitem']
  ctx.floor('link-removed raise site', len(rmev), 1); ctx.floor('adjacency pop site', len(pops), 1)
  loops = [(s_, h, a) for (s_, h, a) in g2.loop_nodes if isinstance(s_, ast.For)]
  for what, nodes in (("announced removed", rmev), ("popped", pops)):
    for n in nodes:
      lo = [(s_, h, a) for (s_, h, a) in loops if n in g2.loop_body_nodes(h)]
      good = len(lo) == 1 and norm(lo[0][0].iter) == lp and not [x for x in g2.nodes if x.kind in ('break', 'return') and x in g2.reachable(lo[0][1]) and any(m is lo[0][2] for m, l in x.succ)]
      per = g2.interval(lambda x: x is n, start=[b for b in g2.nodes if b.kind == 'branch' and lo and b.label[0] is lo[0][0] and b.label[1] is True][0], stop=lo[0][1]) if lo else None
      ctx.ob('R-ALL', dl, "every withdrawn link is %s exactly once" % what, good and per == (1, 1), "for link in %s: once per link" % lp if good and per == (1, 1) else
             "`%s` is not executed once for every link of `%s` (loop %s, per-iteration count %s): links are %s for only some of the withdrawn links" % (n.text(40), lp, [norm(l[0].iter) for l in lo], per, what), (dmod, n.ast), 'D1')
  for e in rmev:
    c = [c for c in q.node_calls(e) if c.args and norm(c.args[0]) == 'LinkEvent'][0]
    lo = [(s_, h, a) for (s_, h, a) in loops if e in g2.loop_body_nodes(h)]
    ctx.ob('R-AGREE', dl, "the announced link is the loop's link", bool(lo) and len(c.args) >= 3 and norm(c.args[2]) == norm(lo[0][0].target), norm(c)[:60], (dmod, c), 'D1')
  for e in rmev:
    good = bool(pops) and all((p_ not in g2.reachable(e)) or g2.dominates(p_, e) for p_ in pops) and any(e in g2.reachable(p_) for p_ in pops)
    ctx.ob('R-ORDER', dl, "a link is out of the adjacency when its removal is announced", good, "pop precedes the announcement" if good else
           "LinkEvent(removed) is raised while the link is still in the adjacency: the spanning-tree component recomputes its tree from the stale adjacency inside the "
           "handler and keeps flooding over the dead link (nothing triggers another recomputation)", (dmod, e.ast), 'D1')
  others = []
  for f in disc.methods.values():
    for c in calls_in(f.node, nested=True):
      if call_name(c) in ('raiseEventNoErrors', 'raiseEvent') and len(c.args) >= 2 and norm(c.args[0]) == 'LinkEvent' and norm(c.args[1]) == 'False' and f is not dl: others.append((f, c))
  ctx.ob('R-OWN', disc.qual, "link removal is announced only by _delete_links", not others, "single site" if not others else "%s also announces removals" % others[0][0].qual, disc, 'D1')
  # callers pass links drawn from the adjacency
  for f in disc.methods.values():
    for c in calls_in(f.node, nested=True):
      if call_name(c) == '_delete_links' and c.args:
        a = c.args[0]
        src = a if isinstance(a, ast.ListComp) else (q.single_def(f.node, a.id) if isinstance(a, ast.Name) else None)
        good = isinstance(src, ast.ListComp) and 'self.adjacency' in norm(src.generators[0].iter)
        ctx.ob('R-AGREE', f, "withdrawn links are drawn from the adjacency", good, norm(src.generators[0].iter) if good else "argument `%s` is not a selection from self.adjacency" % norm(a), (dmod, c), 'D1')
  # ConnectionDown: either end
  lc = [n for n in ast.walk(cdown.node) if isinstance(n, ast.ListComp)]
  if lc:
    cond = lc[0].generators[0].ifs[0] if lc[0].generators[0].ifs else None
    ev = cdown.params[1]
    good = cond is not None and isinstance(cond, ast.BoolOp) and isinstance(cond.op, ast.Or) and {norm(v) for v in cond.values} == {'link.dpid1 == %s.dpid' % ev, 'link.dpid2 == %s.dpid' % ev}
    ctx.ob('R-AGREE', cdown, "a disconnected switch's links are withdrawn in both directions", good, norm(cond) if good else
           "the selection is `%s`: links pointing *to* (or from) the lost switch stay in the adjacency" % norm(cond), (dmod, lc[0]), 'D1')
  else: ctx.undecided('R-AGREE', cdown, "links of a lost switch", "selection not found", cdown, 'D1')
  lc = [n for n in ast.walk(exp.node) if isinstance(n, ast.ListComp)]
  if lc:
    cond = lc[0].generators[0].ifs[0] if lc[0].generators[0].ifs else None
    facts = q.facts_of(cond, True) if isinstance(cond, ast.Compare) else []
    good = any((norm(l) == 'timestamp + self._link_timeout' and o in ('<', '<=') and norm(r) == 'now') or (norm(r) == 'timestamp + self._link_timeout' and o in ('>', '>=') and norm(l) == 'now') or
               (norm(l) == 'now - timestamp' and o in ('>', '>=') and norm(r) == 'self._link_timeout') for l, o, r in facts)
    ctx.ob('R-AGREE', exp, "a link expires only when its last probe is older than the link timeout", good, norm(cond), (dmod, lc[0]), 'D1')
    ctx.ob('R-AGREE', exp, "expiry scans every adjacency entry", 'self.adjacency.items()' in norm(lc[0].generators[0].iter), norm(lc[0].generators[0].iter), (dmod, lc[0]), 'D1')
  init = disc.methods.get('__init__')
  tm = [c for c in calls_in(init.node) if call_name(c) == 'Timer'] if init else []
  good = any('_expire_links' in norm(c) and norm(kwarg(c, 'recurring', 2)) == 'True' for c in tm)
  ctx.ob('R-AGREE', disc.qual, "expiry runs on a recurring timer", good, norm(tm[0]) if tm else "no timer", disc, 'D1')

  # ---- D2 writer / reader -------------------------------------------------------------------------
  wsrc = {}
  for t, v, st, k in q.stores_in(mk.node):
    if isinstance(t, ast.Attribute) and v is not None: wsrc[norm(t)] = v
  cid = wsrc.get('chassis_id.id'); sdp = wsrc.get('sysdesc.payload')
  WR = "('dpid:' + hex(int(dpid))[2:]).encode()"
  ctx.ob('R-AGREE', mk, "probe carries the datapath id as 'dpid:' + hex digits (chassis id)", cid is not None and norm(cid) == WR, norm(cid) if cid is not None else "?", mk, 'D2')
  ctx.ob('R-AGREE', mk, "probe carries the datapath id as 'dpid:' + hex digits (system description)", sdp is not None and norm(sdp) == WR, norm(sdp) if sdp is not None else "?", mk, 'D2')
  pidc = [c for c in calls_in(mk.node) if call_name(c) == 'port_id']
  good = bool(pidc) and norm(kwarg(pidc[0], 'id')) == 'str(port_num)' and 'SUB_PORT' in norm(kwarg(pidc[0], 'subtype'))
  ctx.ob('R-AGREE', mk, "probe carries the port number as decimal text", good, norm(pidc[0]) if pidc else "?", mk, 'D2')
  order = [norm(c.args[0]) for c in sorted(calls_in(mk.node), key=lambda c: (c.lineno, c.col_offset)) if call_name(c) == 'append' and 'tlvs' in norm(c.func.value)]
  ctx.ob('R-AGREE', mk, "TLV order is chassis id, port id, ttl, system description, end", order[:4] == ['chassis_id', 'port_id', 'ttl', 'sysdesc'] and 'end_tlv' in order[-1], " ".join(order), mk, 'D2')
  # reader
  nested = q.nested_defs(pin.node)
  lk = nested.get('lookInSysDesc')
  src = norm(pin.node)
  for idx, typ in ((0, 'CHASSIS_ID_TLV'), (1, 'PORT_ID_TLV'), (2, 'TTL_TLV')):
    want = 'lldph.tlvs[%d].tlv_type != pkt.lldp.%s' % (idx, typ)
    ctx.ob('R-AGREE', pin, "reader expects TLV %d to be %s" % (idx, typ), want in src, want if want in src else "type test for TLV %d changed" % idx, pin, 'D2')
  if lk is None:
    ctx.undecided('R-AGREE', pin, "system-description reader", "nested lookInSysDesc not found", pin, 'D2')
  else:
    lg = q.cfg_of(lk)
    txt = [n for n in lg.nodes if n.kind == 'cond' and "startswith('dpid:')" in norm(n.ast)]
    binf = lg.nodes_with_call(lambda c: call_name(c) == 'unpack' and '!Q' in norm(c))
    ints = [c for c in calls_in(lk) if call_name(c) == 'int' and len(c.args) == 2]
    good = bool(ints) and isinstance(ints[0].args[0], ast.Subscript) and norm(ints[0].args[0].slice) == '%d:' % len('dpid:') and norm(ints[0].args[1]) == '16'
    ctx.ob('R-AGREE', pin, "reader strips exactly the 'dpid:' prefix and parses base 16", good, norm(ints[0]) if ints else "no int(.., 16)", (dmod, lk), 'D2')
    sl = [n for n in ast.walk(lk) if isinstance(n, ast.For) and 'tlvs[3:]' in norm(n.iter)]
    ctx.ob('R-AGREE', pin, "system description is searched after the three mandatory TLVs", bool(sl), "for t in lldph.tlvs[3:]", (dmod, lk), 'D2')
    if txt and binf:
      # every path to the binary fallback has first gone through the loop that tries the textual form
      heads = [h for (s_, h, a) in lg.loop_nodes if any(t in lg.loop_body_nodes(h) for t in txt)]
      good = bool(heads) and all(lg.dominates(heads, b) for b in binf)
      ctx.ob('R-ORDER', pin, "the textual 'dpid:<hex>' form is tried before the 8-byte binary fallback", good, "startswith('dpid:') dominates struct.unpack('!Q')" if good else
             "the 8-byte binary interpretation is reached without first trying the textual form: POX's own payload 'dpid:abc' (3 hex digits) is exactly 8 bytes and decodes as a garbage datapath id - that switch's links are never discovered", (dmod, lk), 'D2')
    elif binf:
      ctx.bad('R-ORDER', pin, "the textual 'dpid:<hex>' form is tried before the 8-byte binary fallback", "textual parse not found", (dmod, lk), 'D2')
  ctx.ob('R-AGREE', pin, "port id is read as decimal text", 'lldph.tlvs[1].id.isdigit()' in src and 'int(lldph.tlvs[1].id)' in src, "isdigit() / int()", pin, 'D2')
  lkc = [c for c in calls_in(pin.node) if norm(c.func) == 'Discovery.Link']
  good = len(lkc) == 1 and [norm(a) for a in lkc[0].args] == ['originatorDPID', 'originatorPort', pin.params[1] + '.dpid', pin.params[1] + '.port']
  ctx.ob('R-AGREE', pin, "a link points from the probe's sender to the receiving switch port", good, norm(lkc[0]) if lkc else "?", pin, 'D2')
  own = [n for n in g.nodes if n.kind == 'return' and any('originatorDPID, originatorPort' in f for f in q.fact_strs(g, n))]
  ctx.ob('R-DOM', pin, "a port's own probe never creates a link", bool(own), "return when sender == receiver", pin, 'D2')
  known = [n for n in g.nodes if n.kind == 'return' and any('originatorDPID not in core.openflow.connections' in f for f in q.fact_strs(g, n))]
  ctx.ob('R-DOM', pin, "probes from unknown switches create no link", bool(known), "return when the sender is not connected", pin, 'D2')

  # ---- D3 flood bits ------------------------------------------------------------------------------------
  ut = smod.funcs.get('_update_tree'); cst = smod.funcs.get('_calc_spanning_tree')
  if ut is None or cst is None: raise AnalysisError("spanning_tree._update_tree/_calc_spanning_tree vanished")
  ctx.analysed(ut); ctx.analysed(cst)
  g3 = q.cfg_of(ut)
  fl = [(v, st) for t, v, st, k in q.stores_in(ut.node) if isinstance(t, ast.Name) and t.id == 'flood']
  good = len(fl) == 2 and any(norm(v) == 'p.port_no in tree_ports' for v, st in fl) and any(isinstance(v, ast.Constant) and v.value is True for v, st in fl)
  edge = [st for v, st in fl if isinstance(v, ast.Constant)]
  if good and edge:
    n = q.enclosing_stmt_node(g3, edge[0]); fs = q.fact_strs(g3, n)
    good = any('is_edge_port(sw, p.port_no)' in f and f.endswith(':truthy') for f in fs) and 'flood:falsy' in fs
  ctx.ob('R-AGREE', ut, "flooding stays enabled on tree ports and on host-facing (edge) ports", good, "flood = in tree or is_edge_port" if good else "flood computation changed: %s" % [norm(st) for v, st in fl], ut, 'D3')
  tp = q.single_def(ut.node, 'tree_ports')
  ctx.ob('R-AGREE', ut, "tree ports are the port numbers of the switch's tree links", tp is not None and norm(tp) == '[p[1] for p in ports]', norm(tp) if tp is not None else "?", ut, 'D3')
  pm = [c for c in calls_in(ut.node) if call_name(c) == 'ofp_port_mod']
  if pm:
    c = pm[0]
    good = norm(kwarg(c, 'mask')) == 'of.OFPPC_NO_FLOOD' and norm(kwarg(c, 'config')) == '0 if flood else of.OFPPC_NO_FLOOD' and norm(kwarg(c, 'port_no')) == 'p.port_no' and norm(kwarg(c, 'hw_addr')) == 'p.hw_addr'
    ctx.ob('R-AGREE', ut, "port-mod sets exactly the NO_FLOOD bit, cleared when flooding is wanted", good, norm(c)[:110] if good else "port-mod is %s" % norm(c)[:140], (smod, c), 'D3')
  sk = [n for n in g3.nodes if n.kind == 'continue' and any('_prev[sw][p.port_no] is flood' in f for f in q.fact_strs(g3, n))]
  ctx.ob('R-DOM', ut, "a port-mod is skipped only when the remembered bit equals the new one", bool(sk), "continue under _prev[sw][port] is flood", ut, 'D3')
  upd = [q.enclosing_stmt_node(g3, st) for t, v, st, k in q.stores_in(ut.node) if norm(t) == '_prev[sw][p.port_no]' and v is not None and norm(v) == 'flood']
  snd_ = g3.nodes_with_call(lambda c: call_name(c) == 'send')
  ctx.ob('R-EFFECT', ut, "the remembered bit is updated whenever a port-mod is sent", bool(upd) and bool(snd_) and (g3.dominates(upd[0], snd_[0]) or g3.postdominates(upd[0], snd_[0])), "_prev updated with the send", ut, 'D3')
  phys = [n for n in g3.nodes if n.kind == 'cond' and norm(n.ast) == 'p.port_no < of.OFPP_MAX']
  ctx.ob('R-DOM', ut, "only physical ports are touched", bool(phys) and bool(snd_) and any('p.port_no < of.OFPP_MAX' in f for f in q.fact_strs(g3, snd_[0])), "under port_no < OFPP_MAX", ut, 'D3')
  # ---- D4 symmetric choice -----------------------------------------------------------------------------------
  g4 = q.cfg_of(cst)
  w12 = [(st, v) for t, v, st, k in q.stores_in(cst.node, nested=False) if norm(t) == 'adj[s1][s2]' and v is not None]
  w21 = [(st, v) for t, v, st, k in q.stores_in(cst.node, nested=False) if norm(t) == 'adj[s2][s1]' and v is not None]
  good = len(w12) == 1 and len(w21) == 1
  if good:
    a = q.enclosing_stmt_node(g4, w12[0][0]); b = q.enclosing_stmt_node(g4, w21[0][0])
    l1 = norm(w12[0][1]); l2 = norm(w21[0][1])
    good = (g4.dominates(a, b) and g4.postdominates(b, a)) and l1.endswith('.port1') and l2.endswith('.port2') and l1.split('.')[0] == l2.split('.')[0]
  ctx.ob('R-AGREE', cst, "when a link is chosen for a switch pair both directions take their port from that same link", good,
         "adj[s1][s2] = l.port1 and adj[s2][s1] = l.port2 together" if good else
         "the two directions of a switch pair are no longer fixed from one link object (%s / %s): with parallel links learnt in different orders each side can enable a different cable - the flood-enabled ports are not the two ends of one link and flooding loops" % ([norm(s) for s, v in w12], [norm(s) for s, v in w21]), cst, 'D4')
  bid = [n for n in g4.nodes if n.kind == 'cond' and 'flip(l) in core.openflow_discovery.adjacency' in norm(n.ast)]
  ctx.ob('R-DOM', cst, "only links seen in both directions are used for the tree", bool(bid) and bool(w12) and any('flip(l) in core.openflow_discovery.adjacency' in f for f in q.fact_strs(g4, q.enclosing_stmt_node(g4, w12[0][0]))), "under flip(l) in adjacency", cst, 'D4')
  dels = [x for x in g4.nodes if x.ast is not None and isinstance(x.ast, ast.Delete)]
  d12 = [x for x in dels if 'adj[s1][s2]' in norm(x.ast)]; d21 = [x for x in dels if 'adj[s2][s1]' in norm(x.ast)]
  ctx.ob('R-AGREE', cst, "a pair without a bidirectional link is removed in both directions", bool(d12) and bool(d21) and g4.dominates(d12[0], d21[0]), "del adj[s1][s2]; del adj[s2][s1]", cst, 'D4')
  for f in (pin, dl, exp, cdown, mk, ut, cst):
    for nm, node in defs.undefined_names(repo, f):
      ctx.bad('R-DEF', f, "undefined name `%s`" % nm, "NameError on this path", (f.module, node), 'D1')
