"""C20 - send path under partial writes and back-pressure (structural part).

 D1 send-result discipline: at every socket-send site the byte count is compared with the length of the
    SAME buffer that was written and the unsent remainder is the suffix slice of that buffer
 D2 FIFO: queues grow at the tail and shrink at the head; a partial write replaces the head by its suffix
 D3 the direct write in Connection.send is dominated by "the deferred sender is idle"; remainder / would-block
    data is handed to the deferred queue
 D4 R-LOCK: every access to the deferred queue map and every write of `sending` is inside the lock; `sending`
    is set before data is queued and cleared only when the map is empty
 D5 after a fatal socket error / close nothing further is written: writes are unreachable in the
    disconnected / closed state, fatal branches disconnect/close and drop the queue
"""
import ast, re
from .. import q, defs
from ..model import AnalysisError, calls_in, call_name, norm, kwarg, walk_no_nested

EXPLAIN = ("R-AGREE send-result discipline by def-use from each `l = sock.send(B)` (compare with len(B), remainder B[l:]); "
           "R-OWN/R-AGREE queue operations tail-in head-out; R-DOM direct write only while the deferred sender is idle and "
           "never in the disconnected/closed state (path-sensitive reachability); R-LOCK accesses to the deferred map and the "
           "`sending` flag inside `with self._lock`; R-ORDER flag before queue, cleared only when empty; fatal branches "
           "close/disconnect. Decides these necessary conditions, not all fault scripts / thread timings as executions.")
OF = 'openflow.of_01'; IO = 'lib.ioworker'

def _in_with (fnode, target, lock_text):
  """is AST node `target` lexically inside `with <lock_text>:` in fnode?"""
  def rec (n, inside):
    if n is target: return inside
    for ch in ast.iter_child_nodes(n):
      ins = inside
      if isinstance(n, ast.With) and ch in n.body and any(norm(i.context_expr) == lock_text for i in n.items): ins = True
      r = rec(ch, ins)
      if r is not None: return r
    return None
  return bool(rec(fnode, False))

def _send_sites (f):
  """[(lvar, call, buffer_expr, stmt)] for `l = <x>.send(B, ...)` on a socket-like receiver"""
  out = []
  for t, v, st, k in q.stores_in(f.node):
    if isinstance(t, ast.Name) and isinstance(v, ast.Call) and call_name(v) == 'send' and isinstance(v.func, ast.Attribute) and v.args:
      recv = norm(v.func.value)
      if recv.endswith('sock') or recv.endswith('socket') or recv == 'sock':
        out.append((t.id, v, v.args[0], st))
  return out

def _discipline (ctx, f, mod, clause='D1'):
  sites = _send_sites(f)
  g = q.cfg_of(f)
  for lvar, call, buf, st in sites:
    B = norm(buf)
    where = (mod, st)
    # comparisons of l with a length
    cmps = []
    for n in walk_no_nested(f.node):
      if isinstance(n, ast.Compare) and len(n.ops) == 1:
        sides = [n.left, n.comparators[0]]
        if any(isinstance(s_, ast.Name) and s_.id == lvar for s_ in sides):
          other = [s_ for s_ in sides if not (isinstance(s_, ast.Name) and s_.id == lvar)][0]
          if isinstance(other, ast.Call) and call_name(other) == 'len': cmps.append((n, other))
    for n, other in cmps:
      good = norm(other.args[0]) == B or _canon(f, other.args[0]) == _canon(f, buf)
      ctx.ob('R-AGREE', f, "bytes written by `%s` are compared with the length of the buffer written" % norm(call)[:40], good,
             "%s vs len(%s)" % (lvar, B) if good else "the result of sending `%s` is compared with len(%s): a complete write is not recognised (or a short one is taken for complete)" % (B, norm(other.args[0])), (mod, n), clause)
    # uses of l as index / slice of a buffer
    used = False
    for n in walk_no_nested(f.node):
      if isinstance(n, ast.Subscript) and any(isinstance(x, ast.Name) and x.id == lvar for x in ast.walk(n.slice)):
        used = True
        sl = n.slice
        is_suffix = isinstance(sl, ast.Slice) and sl.lower is not None and norm(sl.lower) == lvar and sl.upper is None
        same = norm(n.value) == B or (isinstance(buf, ast.Name) and _alias_of(f, n.value, buf.id)) or _canon(f, n.value) == _canon(f, buf)
        good = is_suffix and same
        ctx.ob('R-AGREE', f, "unsent remainder after `%s` is the suffix of the written buffer" % norm(call)[:40], good,
               "%s[%s:]" % (B, lvar) if good else "remainder is taken as `%s` (%s): bytes are %s" % (norm(n), "not a suffix slice [l:]" if not is_suffix else "slice of a different buffer than `%s`" % B,
                 "lost, duplicated or reordered"), (mod, n), clause)
    for c in calls_in(f.node):
      if call_name(c) == '_consume_send_buf' and c.args and norm(c.args[0]) == lvar:
        used = True
        good = B == 'self.send_buf'
        ctx.ob('R-AGREE', f, "exactly the written prefix is consumed from the send buffer", good, "_consume_send_buf(%s) after sending self.send_buf" % lvar if good else "consumes %s bytes of send_buf after writing `%s`" % (lvar, B), (mod, c), clause)
    if not used:
      ctx.undecided('R-AGREE', f, "remainder handling after `%s`" % norm(call)[:40], "the byte count `%s` is never used to cut the buffer" % lvar, where, clause)
  return sites

def _alias_of (f, e, name):
  return isinstance(e, ast.Name) and e.id == name

def _canon (f, e, depth=0):
  """text of e with locals that are single-definition copies of a name / subscript / attribute chain replaced by what they copy
  (`chunk = queue[0]`, `queue = pending[con]`, `pending = self._dataForConnection`): two spellings of the same buffer compare equal"""
  import copy
  if depth > 5: return norm(e)
  e = copy.deepcopy(e)
  changed = False
  class _R(ast.NodeTransformer):
    def visit_Name (self, n):
      nonlocal changed
      if isinstance(n.ctx, ast.Load):
        d = q.single_def(f.node, n.id)
        if d is not None and isinstance(d, (ast.Name, ast.Subscript, ast.Attribute)) and not any(isinstance(x, ast.Call) for x in ast.walk(d)) and not q.mentions_name(d, n.id):
          changed = True; return copy.deepcopy(d)
      return n
  e2 = _R().visit(e)
  return _canon(f, e2, depth + 1) if changed else norm(e2)

def run (ctx):
  ctx.explanation = EXPLAIN
  ctx.assumptions = ["socket.send returns the number of bytes accepted", "RLock regions are exactly the lexical `with self._lock:` blocks"]
  repo = ctx.repo
  mod = repo.mod(OF); iom = repo.mod(IO)
  con = repo.cls(OF, 'Connection'); ds = repo.cls(OF, 'DeferredSender')
  iow = repo.cls(IO, 'IOWorker'); riw = repo.cls(IO, 'RecocoIOWorker')
  csend = q.find_method(repo, con, 'send', 'C20'); dsend = q.find_method(repo, ds, 'send', 'C20'); drun = q.find_method(repo, ds, 'run', 'C20')
  for f_ in (dsend, drun):      # a local alias of the queue map (`pending = self._dataForConnection`, taken under the lock) is put back
    q.inline_attr_copies(f_.node, set(['self']), deep=True)
  dkill = ds.methods.get('kill'); slc = q.find_method(repo, ds, '_sliceup', 'C20')
  isend = q.find_method(repo, iow, 'send', 'C20'); dosend = q.find_method(repo, iow, '_do_send', 'C20'); cons = q.find_method(repo, iow, '_consume_send_buf', 'C20')
  sfast = q.find_method(repo, riw, 'send_fast', 'C20'); rclose = q.find_method(repo, riw, 'close', 'C20'); iclose = q.find_method(repo, iow, 'close', 'C20')
  for f in (csend, dsend, drun, slc, isend, dosend, cons, sfast, rclose, iclose): ctx.analysed(f)

  # ---- D0 slicing for the deferred queue, by evaluation with PIPE_BUF = 4: the pieces, in order, are exactly the data - nothing lost,
  # nothing twice - also when the length is an exact multiple of the piece size or smaller than one piece
  gs_ = q.cfg_of(slc)
  bad_ = []; unk_ = 0
  for ln_ in (0, 1, 3, 4, 5, 8, 9, 12, 13):
    data_ = bytes(range(65, 65 + ln_))
    outs_ = []
    for p_, e_ in q.paths_under(repo, mod, gs_, q.Env({slc.params[1]: data_, 'PIPE_BUF': 4}), gs_.entry, [n_ for n_ in gs_.nodes if n_.kind == 'return'], ds, limit=40):
      try: outs_.append(q.eval_env2(repo, mod, p_[-1].ast.value, e_, ds))
      except Exception: outs_.append('?')
    if len(outs_) != 1 or not isinstance(outs_[0], list) or not all(isinstance(x_, bytes) for x_ in outs_[0]): unk_ += 1; continue
    pcs_ = outs_[0]
    if b''.join(pcs_) != data_ or any(len(x_) == 0 or len(x_) > 4 for x_ in pcs_): bad_.append((ln_, pcs_))
  if unk_:
    ctx.undecided('R-AGREE', slc, "the slices of a deferred message are, in order, exactly the message", "%d of 9 sample lengths not evaluable" % unk_, slc, 'D1')
  else:
    ctx.ob('R-AGREE', slc, "the slices of a deferred message are, in order, exactly the message", not bad_, "lengths 0..13 with a piece size of 4" if not bad_ else
           "with a piece size of 4 a %d-byte message is sliced into %s: %s" % (bad_[0][0], bad_[0][1], "bytes are queued twice - the switch receives a duplicated tail and the stream is corrupt from there on" if len(b''.join(bad_[0][1])) > bad_[0][0] else
           "the pieces do not add up to the message"), slc, 'D1')
  # ---- D1 ----------------------------------------------------------------------
  n_sites = 0
  for f, m in ((csend, mod), (drun, mod), (dosend, iom), (sfast, iom)):
    n_sites += len(_discipline(ctx, f, m))
  ctx.floor('socket-send sites', n_sites, 4)
  if ctx.tier == 'thorough':
    rs = repo.cls('lib.recoco.recoco', 'Send').methods.get('_sendReturnFunc')
    if rs is not None:
      ctx.analysed(rs)
      # recoco.Send writes a prefix `data` of self._data and drops l bytes of self._data: accepted idiom "prefix of the same buffer"
      for lvar, call, buf, st in _send_sites(rs):
        d = q.reaching_assign(rs.node, norm(buf))
        pref = any(v is not None and 'self._data' in norm(v) for v, s_, k in d)
        cut = any(norm(t) == 'self._data' and v is not None and norm(v) == 'self._data[%s:]' % lvar for t, v, s_, k in q.stores_in(rs.node))
        ctx.ob('R-AGREE', rs, "recoco.Send drops exactly the written prefix", pref and cut, "data = self._data[:bs]; self._data = self._data[l:]" if pref and cut else "prefix/suffix handling changed", rs, 'D1')
  # _consume_send_buf: drops a prefix of length l
  st = [s_ for t, v, s_, k in q.stores_in(cons.node) if norm(t) == 'self.send_buf']
  good = len(st) == 1 and norm(st[0].value) == 'self.send_buf[%s:]' % cons.params[1]
  ctx.ob('R-AGREE', cons, "consuming keeps the unsent suffix", good, norm(st[0]) if st else "?", cons, 'D2')
  # ---- D2 FIFO -------------------------------------------------------------------
  st = [(s_, k) for t, v, s_, k in q.stores_in(isend.node) if norm(t) == 'self.send_buf']
  good = len(st) == 1 and ((st[0][1] == 'augassign' and isinstance(st[0][0].op, ast.Add) and norm(st[0][0].value) == isend.params[1]) or
                           (st[0][1] == 'assign' and norm(st[0][0].value) == 'self.send_buf + ' + isend.params[1]))
  ctx.ob('R-AGREE', isend, "new data is appended at the tail of the send buffer", good, norm(st[0][0]) if st else "?", isend, 'D2')
  # every other writer of send_buf in ioworker: only suffix cuts / init
  for cls in iom.classes.values():
    for f in cls.methods.values():
      for t, v, s_, k in q.stores_in(f.node):
        if norm(t) == 'self.send_buf' and f is not isend:
          okw = (f is cons) or (f.name == '__init__' and isinstance(v, ast.Constant) and v.value == b'')
          if not okw and isinstance(v, ast.Subscript) and norm(v.value) == 'self.send_buf' and isinstance(v.slice, ast.Slice) and v.slice.upper is None and v.slice.step is None \
             and isinstance(v.slice.lower, ast.Name):
            # a head cut written in place: accepted when the count can only be what the socket reported for this very buffer
            gf = q.cfg_of(f); sn = q.enclosing_stmt_node(gf, s_)
            pv = q.provenance(gf, sn, v.slice.lower.id) if sn is not None else []
            okw = bool(pv) and all(kind == 'assign' and isinstance(val, ast.Call) and call_name(val) == 'send' and val.args and norm(val.args[0]) == 'self.send_buf'
                                   and norm(val.func.value).endswith('socket') for d_, kind, val in pv)
          ctx.ob('R-OWN', f, "send buffer written only by send (tail) and consume (head)", okw, f.name if okw else "%s rewrites the send buffer: `%s`" % (f.qual, norm(s_)), (iom, s_), 'D2')
  # send_fast: remaining data goes through IOWorker.send (tail) - and only the remainder
  g = q.cfg_of(sfast)
  tail = g.nodes_with_call(lambda c: call_name(c) == 'send' and norm(c.func.value) in ('IOWorker', 'super(RecocoIOWorker, self)', 'super()'))
  ctx.ob('R-EFFECT', sfast, "whatever was not written directly is queued exactly once", g.interval(lambda n: n in tail)[1] <= 1 and bool(tail), "IOWorker.send count %s" % (g.interval(lambda n: n in tail),), sfast, 'D2')
  # DeferredSender queue
  DM = 'self._dataForConnection'
  for c in calls_in(dsend.node):
    if isinstance(c.func, ast.Attribute) and q.mentions_attr(c.func.value, '_dataForConnection') and c.func.attr in q.MUTATORS:
      good = c.func.attr == 'extend' or (c.func.attr == 'setdefault' and len(c.args) == 2 and isinstance(c.args[1], ast.List) and not c.args[1].elts)        # setdefault(con, []): an empty queue for a new connection
      ctx.ob('R-AGREE', dsend, "queued data for a connection grows at the tail", good, norm(c)[:60] if good else "`%s` does not append at the tail: queued messages are reordered" % norm(c)[:60], (mod, c), 'D2')
  g = q.cfg_of(drun)
  qv = None
  for t, v, s_, k in q.stores_in(drun.node):
    if isinstance(t, ast.Name) and v is not None and norm(v) == DM + '[con]': qv = t.id
  if qv is None: ctx.undecided('R-AGREE', drun, "deferred queue consumer", "queue alias not found", drun, 'D2')
  else:
    heads = [n for n in walk_no_nested(drun.node) if isinstance(n, ast.Subscript) and norm(n.value) == qv]
    good = bool(heads) and all(norm(n.slice) == '0' for n in heads)
    ctx.ob('R-AGREE', drun, "the deferred sender always works on the head of the queue", good, "%s[0] only" % qv if good else "queue accessed at %s" % sorted(set(norm(n.slice) for n in heads)), drun, 'D2')
    part = [s_ for t, v, s_, k in q.stores_in(drun.node) if isinstance(t, ast.Subscript) and norm(t.value) == qv and k == 'assign']
    lv_ = set(x_[0] for x_ in _send_sites(drun)) or set(['l'])      # whatever the byte count returned by send() is called
    pv_ = part[0].value if part else None
    good = len(part) == 1 and norm(part[0].targets[0].slice) == '0' and isinstance(pv_, ast.Subscript) and isinstance(pv_.slice, ast.Slice) and pv_.slice.upper is None and pv_.slice.step is None \
           and pv_.slice.lower is not None and norm(pv_.slice.lower) in lv_
    ctx.ob('R-AGREE', drun, "a partial deferred write leaves the unsent suffix at the head", good, norm(part[0]) if part else "no head replacement", drun, 'D2')
    if part:
      pn = q.enclosing_stmt_node(g, part[0])
      nxt = [n for n in g.nodes if n.kind == 'break' and pn is not None and g.dominates(pn, n)]
      ctx.ob('R-ORDER', drun, "after a partial write the sender stops writing to that socket until it is writable again", bool(nxt), "break follows", drun, 'D2')
  # ---- D3 ordering between the direct and the deferred path --------------------------------
  g = q.cfg_of(csend)
  direct = g.nodes_with_call(lambda c: call_name(c) == 'send' and norm(c.func.value) == 'self.sock')
  handoff = g.nodes_with_call(lambda c: call_name(c) == 'send' and norm(c.func.value) == 'deferredSender')
  ctx.floor('direct write site', len(direct), 1); ctx.floor('deferred hand-off sites', len(handoff), 3)
  r = q.reach_under(repo, mod, g, q.Env({'self.disconnected': False, 'deferredSender.sending': True, 'type(data) is not bytes': False}), con, exc=True)
  good = not any(d in r for d in direct) and any(h in r for h in handoff)
  ctx.ob('R-DOM', csend, "while deferred data is pending, new data is queued behind it, never written directly", good,
         "direct write unreachable, hand-off reachable when deferredSender.sending" if good else "a message can be written directly to the socket while earlier bytes are still queued: the stream is reordered", csend, 'D3')
  data = csend.params[1]
  for h in handoff:
    c = [c for c in q.node_calls(h) if call_name(c) == 'send' and norm(c.func.value) == 'deferredSender'][0]
    ctx.ob('R-AGREE', csend, "hand-off passes this connection and the pending data", len(c.args) == 2 and norm(c.args[0]) == 'self' and norm(c.args[1]) == data, norm(c), (mod, c), 'D3')
  # partial write: the suffix assignment dominates the hand-off on that branch
  # the count returned by the direct write, whatever the local is called
  cnt = None
  for d_ in direct:
    if isinstance(d_.ast, ast.Assign) and isinstance(d_.ast.targets[0], ast.Name): cnt = d_.ast.targets[0].id
  cut = [q.enclosing_stmt_node(g, s_) for t, v, s_, k in q.stores_in(csend.node) if isinstance(t, ast.Name) and t.id == data and v is not None and cnt and norm(v) == '%s[%s:]' % (data, cnt)]
  # hand-offs that follow a short write: reachable from the write (no exception) when count != len(data)
  part_h = []
  if cnt and direct:
    short = q.Env({'%s == len(%s)' % (cnt, data): False, '%s != len(%s)' % (cnt, data): True, '%s < len(%s)' % (cnt, data): True})
    rr = q.reach_under(repo, mod, g, short, con, start=direct[0], exc=False)
    part_h = [h for h in handoff if h in rr]
  good = bool(cut) and bool(part_h) and all(g.dominates(cut[0], h) for h in part_h)
  ctx.ob('R-ORDER', csend, "after a short direct write only the unsent suffix is queued", good, "data = data[count:] dominates the hand-off" if good else "the whole buffer (or nothing) is queued after a short write", csend, 'D3')
  # ---- D4 lock ---------------------------------------------------------------------------------
  n_lock = 0
  for f in ds.methods.values():
    if f.name == '__init__': continue
    for n in ast.walk(f.node):
      acc = None
      if isinstance(n, ast.Attribute) and n.attr == '_dataForConnection' and norm(n.value) == 'self': acc = 'access to the deferred queue map'
      if isinstance(n, ast.Attribute) and n.attr == 'sending' and norm(n.value) == 'self' and isinstance(n.ctx, ast.Store): acc = 'write of `sending`'
      if acc is None: continue
      inside = _in_with(f.node, n, 'self._lock')
      n_lock += 1
      ctx.ob('R-LOCK', f, "%s at line %s is inside the lock" % (acc, n.lineno), inside, "within `with self._lock`" if inside else
             "%s outside `with self._lock`: the sender thread can clear/set the flag or change the map in between, so a later message is written directly ahead of queued data" % acc, (mod, n), 'D4')
  ctx.floor('locked accesses in DeferredSender', n_lock, 8)
  g = q.cfg_of(dsend)
  flag = [q.enclosing_stmt_node(g, s_) for t, v, s_, k in q.stores_in(dsend.node) if norm(t) == 'self.sending' and isinstance(v, ast.Constant) and v.value is True]
  qst = [q.enclosing_stmt_node(g, s_) for t, v, s_, k in q.stores_in(dsend.node) if isinstance(t, ast.Subscript) and q.mentions_attr(t, '_dataForConnection')] + \
        g.nodes_with_call(lambda c: call_name(c) == 'extend' and q.mentions_attr(c.func.value, '_dataForConnection'))
  good = bool(flag) and bool(qst) and all(g.dominates(flag[0], x) for x in qst)
  ctx.ob('R-ORDER', dsend, "`sending` is raised before the data becomes visible in the queue", good, "flag store dominates the queue stores" if good else "data is queued before the flag is set", dsend, 'D4')
  # same lock region for flag and queue
  if flag and qst:
    w_flag = [w for w in ast.walk(dsend.node) if isinstance(w, ast.With) and any(x is flag[0].ast for x in ast.walk(w))]
    w_q = [w for w in ast.walk(dsend.node) if isinstance(w, ast.With) and any(x is qst[0].ast for x in ast.walk(w))]
    same = bool(w_flag) and bool(w_q) and w_flag[-1] is w_q[-1]
    ctx.ob('R-LOCK', dsend, "flag and queue are updated in one critical section", same, "same `with` block" if same else "flag and queue are updated in different critical sections", dsend, 'D4')
  # the flag covers *all* connections: it is cleared nowhere but in the flush loop, under the empty-map test (dropping one connection's
  # queue says nothing about the others)
  dsc_ = drun.cls
  for f_ in dsc_.methods.values():
    if f_ is drun or f_.name == '__init__': continue
    for t, v, s_, k in q.stores_in(f_.node):
      if norm(t) == 'self.sending' and isinstance(v, ast.Constant) and v.value is False:
        gf_ = q.cfg_of(f_); n_ = q.enclosing_stmt_node(gf_, s_); fs_ = q.fact_strs(gf_, n_) if n_ is not None else []
        good = any(f.startswith('len(self._dataForConnection) == 0') or f == 'self._dataForConnection:falsy' for f in fs_)
        ctx.ob('R-DOM', f_, "`sending` is cleared only when nothing is queued for any connection", good, "guarded by an empty map" if good else
               "%s clears the global `sending` flag although other connections may still have bytes queued: their next send() takes the direct path and overtakes the queued bytes - the stream is reordered" % f_.qual, (mod, s_), 'D4')
  g = q.cfg_of(drun)
  clr = [q.enclosing_stmt_node(g, s_) for t, v, s_, k in q.stores_in(drun.node) if norm(t) == 'self.sending' and isinstance(v, ast.Constant) and v.value is False]
  for c in clr:
    fs = q.fact_strs(g, c)
    good = any(f.startswith('len(self._dataForConnection) == 0') or f == 'self._dataForConnection:falsy' for f in fs)
    ctx.ob('R-DOM', drun, "`sending` is cleared only when nothing is queued for any connection", good, "guarded by an empty map" if good else "flag cleared while data may still be queued (facts %s)" % fs, (mod, c.ast), 'D4')
  # ---- D5 after fatal errors -----------------------------------------------------------------------
  g = q.cfg_of(csend)
  r = q.reach_under(repo, mod, g, q.Env({'self.disconnected': True}), con, exc=True)
  good = not any(d in r for d in direct) and not any(h in r for h in handoff)
  ctx.ob('R-DOM', csend, "nothing is written or queued on a disconnected connection", good, "send/hand-off unreachable when self.disconnected" if good else "a disconnected connection still writes to / queues for its socket", csend, 'D5')
  fatal = g.nodes_with_call(lambda c: call_name(c) == 'disconnect')
  okf = False
  for n in fatal:
    fs = q.fact_strs(g, n)
    if any(re.fullmatch(r'\w+\.errno != EAGAIN', f) for f in fs): okf = True
    c = [c for c in q.node_calls(n) if call_name(c) == 'disconnect'][0]
  ctx.ob('R-EFFECT', csend, "a fatal socket error disconnects the connection", okf, "disconnect under errno != EAGAIN" if okf else "fatal error path does not disconnect", csend, 'D5')
  # the fatal-error path disconnects with the event deferred; the close() that follows must then still announce the loss exactly
  # once: the state table of Connection.disconnect (shared with C09)
  from . import c09
  disc_ = con.find_method('disconnect')
  if disc_ is not None:
    ctx.analysed(disc_); gd_ = q.cfg_of(disc_)
    dn_ = [q.enclosing_stmt_node(gd_, c) for c in calls_in(disc_.node) if call_name(c) in ('raiseEvent', 'raiseEventNoErrors') and c.args and norm(c.args[0]) == 'ConnectionDown']
    c09.disconnect_states(ctx, repo, mod, con, disc_, [d for d in dn_ if d is not None], 'D5')
  g = q.cfg_of(drun)
  dfat = g.nodes_with_call(lambda c: call_name(c) == 'disconnect')
  okd = False
  for n in dfat:
    dl = [x for x in g.nodes if x.ast is not None and isinstance(x.ast, ast.Delete) and '_dataForConnection' in norm(x.ast) and g.dominates(n, x)]
    br = g.postdominates([x for x in g.nodes if x.kind == 'break'], n)
    if dl and br and any(re.fullmatch(r'\w+\.errno != EAGAIN', f) for f in q.fact_strs(g, n)): okd = True
  if not okd and dfat:
    # the same three steps behind the flags an extracted helper leaves (`done = True ... if ret: del queue[con]`): by enumeration of
    # the feasible paths from the disconnect to the next loop head / exit - each drops the queue and none writes again
    heads_ = [h_ for (st_, h_, a_) in g.loop_nodes]
    try:
      for n in dfat:
        if not any(re.fullmatch(r'\w+\.errno != EAGAIN', f) for f in q.fact_strs(g, n)): continue
        ps_ = q.paths_under(repo, mod, g, q.Env(), n, heads_ + [g.exit, g.raise_exit], dsend.cls if 'dsend' in dir() else None, limit=300, track_start=True)
        if not ps_ or len(ps_) >= 300: continue
        def drops (p_): return any(x.ast is not None and ((isinstance(x.ast, ast.Delete) and '_dataForConnection' in norm(x.ast)) or any(call_name(c_) == 'pop' and '_dataForConnection' in norm(c_.func.value) for c_ in q.node_calls(x))) for x in p_)
        def writes (p_): return any(any(call_name(c_) == 'send' and 'sock' in norm(c_.func.value) for c_ in q.node_calls(x)) for x in p_[1:])
        if all(drops(p_) and not writes(p_) for p_, e_ in ps_): okd = True
    except Exception: pass
  ctx.ob('R-EFFECT', drun, "a fatal error in the deferred sender disconnects, drops that connection's queue and stops writing", okd, "disconnect; del queue; break" if okd else "fatal branch of the deferred sender changed", drun, 'D5')
  g = q.cfg_of(sfast)
  direct = g.nodes_with_call(lambda c: call_name(c) == 'send' and norm(c.func.value) == 'self.socket')
  ctx.floor('send_fast direct write', len(direct), 1)
  base = {'len(self.send_buf)': 0, 'self.send_buf': b'', 'self._connecting': False, 'self.closed': False, 'self._ready_to_send': False}
  def R (over):
    e = dict(base); e.update(over)
    return q.reach_under(repo, iom, g, q.Env(e), riw, exc=True)
  ctx.ob('R-DOM', sfast, "direct write possible when idle, connected and open", all(d in R({}) for d in direct), "reachable", sfast, 'D5')
  ctx.ob('R-DOM', sfast, "a closed worker never writes to its socket again", not any(d in R({'self.closed': True}) for d in direct),
         "socket.send unreachable when self.closed" if not any(d in R({'self.closed': True}) for d in direct) else
         "with self.closed true the direct socket.send is still reachable: after a fatal error the worker writes to the socket again", sfast, 'D5')
  ctx.ob('R-DOM', sfast, "no direct write while earlier bytes are still buffered", not any(d in R({'len(self.send_buf)': 3, 'self.send_buf': b'abc', 'self._ready_to_send': True}) for d in direct),
         "unreachable with a non-empty send buffer" if not any(d in R({'len(self.send_buf)': 3, 'self.send_buf': b'abc', 'self._ready_to_send': True}) for d in direct) else "direct write overtakes buffered bytes", sfast, 'D5')
  ctx.ob('R-DOM', sfast, "no direct write while still connecting", not any(d in R({'self._connecting': True, 'self._ready_to_send': True}) for d in direct), "unreachable while connecting", sfast, 'D5')
  rts = iow.methods.get('_ready_to_send')
  if rts is not None:
    rv = q.returns_of(rts.node)
    good_ = bool(rv) and norm(rv[0].value) == 'len(self.send_buf) > 0 or self._connecting'
    if rv and not good_ and len(rv) == 1:
      # another spelling: its truth value for the four combinations of (bytes buffered, connecting)
      good_ = True
      for buf_ in (b'', b'x'):
        for cn_ in (False, True):
          try: v_ = q.eval_env2(repo, iow.module, rv[0].value, q.Env({'self.send_buf': buf_, 'self._connecting': cn_}), iow)
          except Exception: v_ = q.OPAQUE
          if v_ is q.OPAQUE: good_ = None; break
          if bool(v_) != (bool(buf_) or cn_): good_ = False; break
        if good_ is not True: break
    ctx.ob('R-AGREE', rts, "ready-to-send means buffered bytes or connecting", good_, norm(rv[0].value) if rv else "?", rts, 'D5')
  fat = g.nodes_with_call(lambda c: call_name(c) == 'close')
  import re as re_
  fatal_fact = lambda f: re_.fullmatch(r'\w+\.errno != errno\.EAGAIN', f) is not None or re_.fullmatch(r'\w+\.errno not in \(errno\.EAGAIN, errno\.EWOULDBLOCK\)', f) is not None
  okc = any(any(fatal_fact(f) for f in q.fact_strs(g, n)) and g.postdominates([x for x in g.nodes if x.kind == 'return'], n) for n in fat)
  if not okc:
    # by evaluation from the exception handler, with the error not being EAGAIN: every path closes the worker and none reaches the
    # queueing call (flags and markers of an inlined helper are followed by constant propagation)
    is_ne = lambda e: isinstance(e, ast.Compare) and len(e.ops) == 1 and isinstance(e.ops[0], ast.NotEq) and norm(e.left).endswith('.errno') and 'EAGAIN' in norm(e.comparators[0])
    is_eq = lambda e: isinstance(e, ast.Compare) and len(e.ops) == 1 and isinstance(e.ops[0], ast.Eq) and norm(e.left).endswith('.errno') and 'EAGAIN' in norm(e.comparators[0])
    qn_ = g.nodes_with_call(lambda c: call_name(c) == 'send' and norm(c.func.value) in ('IOWorker', 'super(RecocoIOWorker, self)', 'super()'))
    hs_ = [h_ for h_ in g.nodes if h_.kind == 'handler' and h_.ast.type is not None and 'error' in norm(h_.ast.type)]
    res_ = []
    for h_ in hs_:
      # the state the try was entered with: everything the function computed before is unknown except the flags the normaliser introduced,
      # which are initialised right before the try - start from the function entry and take only the paths through this handler
      for p_, e_ in q.paths_under(repo, iom, g, q.Env(dict(base), [(is_ne, True), (is_eq, False)]), g.entry, [g.exit], riw, limit=300, exc=True):
        if h_ not in p_: continue
        res_.append((any(any(call_name(c_) == 'close' for c_ in q.node_calls(n_)) for n_ in p_), any(n_ in qn_ for n_ in p_)))
    if res_ and all(cl_ and not qd_ for cl_, qd_ in res_): okc = True
  ctx.ob('R-EFFECT', sfast, "a fatal error in send_fast closes the worker and queues nothing", okc, "close(); return under errno != EAGAIN" if okc else "fatal branch changed", sfast, 'D5')
  # ... and the dual: when the direct write would block (EAGAIN) nothing was written, so every path from the handler hands the data over to the
  # buffered send - a path that returns without queueing loses the message (by evaluation, flags of an inlined helper followed)
  is_ne2 = lambda e: isinstance(e, ast.Compare) and len(e.ops) == 1 and isinstance(e.ops[0], ast.NotEq) and norm(e.left).endswith('.errno') and 'EAGAIN' in norm(e.comparators[0])
  is_eq2 = lambda e: isinstance(e, ast.Compare) and len(e.ops) == 1 and isinstance(e.ops[0], ast.Eq) and norm(e.left).endswith('.errno') and 'EAGAIN' in norm(e.comparators[0])
  qn2 = g.nodes_with_call(lambda c: call_name(c) == 'send' and norm(c.func.value) in ('IOWorker', 'super(RecocoIOWorker, self)', 'super()'))
  hs2 = [h_ for h_ in g.nodes if h_.kind == 'handler' and h_.ast.type is not None and 'error' in norm(h_.ast.type)]
  ctx.floor('send_fast: handler of the direct write / queueing call', min(len(hs2), len(qn2)), 1)
  res2 = []
  for p_, e_ in q.paths_under(repo, iom, g, q.Env(dict(base, **{pn_: b'wxyz' for pn_ in [a_.arg for a_ in sfast.node.args.args[1:2]]}), [(is_ne2, False), (is_eq2, True)]), g.entry, [g.exit], riw, limit=300, exc=True):
    if not any(h_ in p_ for h_ in hs2): continue
    res2.append((any(n_ in qn2 for n_ in p_), any(any(call_name(c_) == 'close' for c_ in q.node_calls(n_)) for n_ in p_), p_))
  if not res2:
    ctx.undecided('R-EFFECT', sfast, "a would-block in send_fast queues the data", "no path through the handler could be followed", sfast, 'D5')
  else:
    lost = [r_ for r_ in res2 if not r_[0] or r_[1]]
    ctx.ob('R-EFFECT', sfast, "when the direct write would block the data is queued, the worker stays open", not lost, "%d handler paths, all reach the buffered send" % len(res2) if not lost else
           "with errno == EAGAIN a path from the handler %s: nothing of the message was written and nothing is queued - it is lost" % ("closes the worker" if lost[0][1] else "leaves send_fast without reaching the buffered send"), sfast, 'D5')
  for f in (iclose, rclose):
    g = q.cfg_of(f)
    setc = [q.enclosing_stmt_node(g, s_) for t, v, s_, k in q.stores_in(f.node) if norm(t) == 'self.closed']
    work = g.nodes_with_call(lambda c: call_name(c) in ('_call_safe', 'on_close', 'close') and not (call_name(c) == 'close' and norm(c.func.value) == 'self'))
    good = bool(work) and all('self.closed:falsy' in q.fact_strs(g, w) for w in work)
    ctx.ob('R-ONCE', f, "closing is a test-and-set: reported closed exactly once", good, "work only under `not self.closed`" if good else "close handlers can run twice", f, 'D5')
    # ... and the flag is set before anything foreign runs: a close handler may send a last message or close the worker again
    sets = [n_ for n_ in setc if n_ is not None and isinstance(n_.ast, ast.Assign) and isinstance(n_.ast.value, ast.Constant) and n_.ast.value.value is True]
    foreign = g.nodes_with_call(lambda c: call_name(c) in ('_call_safe', 'on_close', '_handle_close'))
    if sets and foreign:
      late = [w for w in foreign if not any(g.dominates(s_, w, exc=False) for s_ in sets)]
      ctx.ob('R-ORDER', f, "the closed flag is set before the close handlers run", not late, "`self.closed = True` dominates the handler call" if not late else
             "`%s` runs while self.closed is still False: a close handler that sends (send_fast writes to the dead socket - the closed test passes) or calls close() again (the guard passes: handlers run again, recursively) "
             "breaks 'nothing further is written' and 'reported closed exactly once'" % late[0].text(50), (f.module, late[0].ast) if late else f, 'D5')
  g = q.cfg_of(dosend)
  fat = g.nodes_with_call(lambda c: call_name(c) == 'close')
  okc = any(any(fatal_fact(f) for f in q.fact_strs(g, n)) for n in fat) and bool(g.nodes_with_call(lambda c: call_name(c) == 'discard'))
  ctx.ob('R-EFFECT', dosend, "a fatal error while flushing closes the worker and removes it from the loop", okc, "close(); loop._workers.discard(self)" if okc else "fatal branch changed", dosend, 'D5')
  for f in (csend, dsend, drun, isend, dosend, sfast, rclose, iclose):
    for nm, node in defs.undefined_names(repo, f):
      ctx.bad('R-DEF', f, "undefined name `%s`" % nm, "NameError on this path", (f.module, node), 'D5')
    for nm, node, path in defs.use_before_def(f):
      ctx.bad('R-DEF', f, "local `%s` used before assignment" % nm, "feasible path %s" % path, (f.module, node), 'D5')
  from . import c09 as c09s_
  c09s_.connection_str_total(ctx, repo, 'D5')
  # ---- mechanisms this property shares with others: their checks' rules about these functions are obligations here too
  ctx.include('C09', ['Connection.disconnect', 'Connection.close'], "closing after a fatal send error is the connection's disconnect state machine")
