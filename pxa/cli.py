"""Command line: check <ID> [--tier quick|thorough] [--repo DIR] [--explain KEY|PATH]"""
import sys, os, argparse, importlib, traceback, json, time

def build_ctx (prop, repo_root, tier, seed):
  from .model import Repo
  from .report import Ctx
  subdirs = ('pox',) if tier == 'quick' else ('pox', 'ext')
  repo = Repo(repo_root, subdirs)
  if repo.parse_errors:
    from .model import AnalysisError
    raise AnalysisError("unparseable source: %s" % (repo.parse_errors[:3],))
  return Ctx(prop, repo, tier, seed)

def run_check (prop, repo_root='/repo', tier='quick', seed=0, write=True, evidence_dir=None, quiet=False, selftest=None):
  """returns (status, evidence dict)"""
  from .model import AnalysisError
  from . import report
  try:
    ctx = build_ctx(prop, repo_root, tier, seed)
    mod = importlib.import_module('pxa.checks.' + prop.lower())
    mod.run(ctx)
    return report.finish(ctx, selftest=selftest, write=write, evidence_dir=evidence_dir, quiet=quiet)
  except AnalysisError as e:
    if not quiet: print("ANALYSIS-ERROR property=%s %s" % (prop, e))
    return 2, None
  except Exception as e:
    if not quiet:
      print("ANALYSIS-ERROR property=%s internal error: %r" % (prop, e))
      traceback.print_exc(file=sys.stdout)
    return 2, None

def selfcheck ():
  """engine sanity (independent of /repo): imports every check module and runs
  the engine's positive/negative controls"""
  from . import controls
  from .props import CLAIMED
  for p in CLAIMED: importlib.import_module('pxa.checks.' + p.lower())
  bad = controls.run_all()
  for b in bad: print("ANALYSIS-ERROR engine control failed: %s" % b)
  print("selfcheck: %d check modules import, %d engine controls, %d failed" % (len(CLAIMED), controls.COUNT, len(bad)))
  return 2 if bad else 0

def main (argv=None):
  argv = sys.argv[1:] if argv is None else argv
  if argv and argv[0] == '--selfcheck': return selfcheck()
  ap = argparse.ArgumentParser(prog='check')
  ap.add_argument('prop')
  ap.add_argument('--tier', default=os.environ.get('VERIF_TIER') or 'quick', choices=['quick', 'thorough'])
  ap.add_argument('--repo', default='/repo')
  ap.add_argument('--explain', default=None)
  ap.add_argument('--no-write', action='store_true')
  ap.add_argument('--evidence-dir', default=None)
  ap.add_argument('--no-selftest', action='store_true')
  a = ap.parse_args(argv)
  try: seed = int(os.environ.get('VERIF_SEED', '0'))
  except ValueError: seed = 0
  prop = a.prop.upper()
  if prop == 'ALL':
    from .props import CLAIMED
    worst = 0
    for p in CLAIMED:
      st, _ = run_check(p, a.repo, a.tier, seed, write=not a.no_write, evidence_dir=a.evidence_dir)
      worst = max(worst, st)
    return worst
  if a.explain:
    return explain(prop, a)
  st = None
  selftest = None
  if a.tier == 'thorough' and not a.no_selftest:
    # verdict first (without writing), then the self-test, then write evidence with both
    from . import selftest as st_mod
    t0 = time.time()
    selftest = st_mod.run_for(prop, a.repo)
    for l in selftest.get('lines', []): print(l)
  status, ev = run_check(prop, a.repo, a.tier, seed, write=not a.no_write, evidence_dir=a.evidence_dir, selftest=selftest)
  return status

def explain (prop, a):
  key = a.explain
  want = None
  if os.path.exists(key):
    with open(key) as f: want = tuple(json.load(f)['key'])
  from .model import AnalysisError
  from . import report
  try:
    ctx = build_ctx(prop, a.repo, a.tier, 0)
    importlib.import_module('pxa.checks.' + prop.lower()).run(ctx)
  except AnalysisError as e:
    print("ANALYSIS-ERROR property=%s %s" % (prop, e)); return 2
  hit = 0; rc = 0
  for o in ctx.obs:
    if (want is not None and o.key() == want) or (want is None and key in " ".join(map(str, o.key()))):
      print(json.dumps(o.as_dict(), indent=1)); hit += 1
      if o.verdict == report.VIOL:
        rc = 1
        print("VIOLATION property=%s replay=%s" % (prop, key))
  if not hit:
    print("obligation not present on the current tree (the construct may have been repaired or removed)")
  return rc

if __name__ == '__main__':
  sys.exit(main())
