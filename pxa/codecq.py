"""Comparisons over extracted codec layouts (shared by C01 and C14)."""
import ast
from . import layout, q
from .model import norm, call_name

def normalise (items):
  """merge adjacent pads; drop zero-width items; strip opt: prefix into a flag"""
  out = []
  for it in items:
    kind = it.kind; opt = False
    while kind.startswith('opt:'): kind = kind[4:]; opt = True
    if it.width == 0: continue
    if kind == 'pad' and out and out[-1][0] == 'pad' and not opt and not out[-1][4] and it.width is not None and out[-1][1] is not None:
      out[-1] = ('pad', out[-1][1] + it.width, 'pad', None, False, out[-1][5]); continue
    out.append((kind, it.width, it.name, it.code, opt, it))
  return out

def data_class (kind):
  if kind in ('int', 'raw', 'len', 'zs', 'str!'): return 'data'
  if kind == 'ign': return 'ign'
  return kind

def is_fieldname (n):
  return n is not None and not n.startswith(('$', '#', '?')) and n != 'pad'

def compare_sides (P, U):
  """list of (offset, what) differences between a pack layout and an unpack layout"""
  A = normalise(P); B = normalise(U)
  diffs = []
  i = j = 0; off = 0; fixed = True
  while i < len(A) and j < len(B):
    a = A[i]; b = B[j]
    o = off if fixed else None
    ka, kb = data_class(a[0]), data_class(b[0])
    # a value that is read and then ignored matches padding or data of the same width
    if 'ign' in (ka, kb) and a[1] is not None and a[1] == b[1]:
      off += a[1]; i += 1; j += 1; continue
    # pads of different split: merge as long as both are pads
    if ka == 'pad' and kb == 'pad':
      if a[1] is not None and b[1] is not None and a[1] != b[1]:
        diffs.append((o, "padding of %d byte(s) when packing but %d when unpacking" % (a[1], b[1])))
      if a[1] is None or b[1] is None: fixed = False
      else: off += a[1]
      i += 1; j += 1; continue
    if ka != kb and not ({ka, kb} <= {'data', 'nest'} and a[1] == b[1] and a[1] is not None) and not ({ka, kb} <= {'var', 'data'} and (a[1] is None or b[1] is None)):
      diffs.append((o, "pack writes %s `%s` (%s bytes) where unpack reads %s `%s` (%s bytes)" % (a[0], a[2], a[1], b[0], b[2], b[1])))
      # try to resync on width
      if a[1] is not None and b[1] is not None and a[1] == b[1]: off += a[1]
      else: fixed = False
      i += 1; j += 1; continue
    if a[1] is not None and b[1] is not None and a[1] != b[1]:
      diffs.append((o, "field `%s` is %d byte(s) wide when packing but `%s` is %d when unpacking" % (a[2], a[1], b[2], b[1])))
      fixed = False
    elif is_fieldname(a[2]) and is_fieldname(b[2]) and a[2] != b[2] and ka == 'data':
      diffs.append((o, "pack writes field `%s` here but unpack reads it into `%s`" % (a[2], b[2])))
    if ka in ('data',) and a[0] == 'str!':
      pass
    if a[1] is None or b[1] is None: fixed = False
    else: off += a[1]
    i += 1; j += 1
  rest_a = [x for x in A[i:] if not x[4]]; rest_b = [x for x in B[j:] if not x[4]]
  if rest_a: diffs.append((None, "pack writes %s after the point where unpack stops reading" % [x[2] for x in rest_a]))
  if rest_b: diffs.append((None, "unpack reads %s that pack never writes" % [x[2] for x in rest_b]))
  return diffs

def compare_spec (items, spec_fields, side):
  """differences between the fixed prefix of a layout and a spec field list"""
  A = [x for x in normalise(items)]
  S = []
  for name, w in spec_fields:
    if name == 'pad' and S and S[-1][0] == 'pad': S[-1] = ('pad', S[-1][1] + w)
    else: S.append((name, w))
  diffs = []; i = 0; off = 0
  for name, w in S:
    if i >= len(A):
      diffs.append((off, "%s stops before spec field `%s` (offset %d)" % (side, name, off))); break
    a = A[i]
    kind = data_class(a[0])
    if kind == 'ign': kind = 'pad' if name == 'pad' else 'data'
    if name == 'hdr':
      if a[0] != 'hdr' and not (kind == 'data' and a[1] == 8): diffs.append((off, "%s has `%s` where the OpenFlow header belongs" % (side, a[2])))
    elif name == 'pad':
      if kind != 'pad': diffs.append((off, "%s has field `%s` at offset %d where the spec has %d byte(s) of padding" % (side, a[2], off, w)))
    elif kind == 'pad':
      diffs.append((off, "%s has padding at offset %d where the spec has field `%s`" % (side, off, name)))
    elif not name.startswith('~') and is_fieldname(a[2]) and a[2] != name and kind in ('data', 'nest'):
      diffs.append((off, "%s has field `%s` at offset %d where the spec has `%s`" % (side, a[2], off, name)))
    if a[1] is not None and a[1] != w:
      diffs.append((off, "%s: `%s` at offset %d is %d byte(s), the spec says %d" % (side, a[2], off, a[1], w)))
      return diffs
    if a[1] is None:
      diffs.append((off, "%s: `%s` at offset %d has no static width (spec: %d)" % (side, a[2], off, w))); return diffs
    off += w; i += 1
  return diffs

def int_slot_args (items):
  """(item) for every int/len slot produced by struct.pack with its argument expression"""
  return [it for it in items if it.kind in ('int', 'len') and it.expr is not None]
