"""Engine controls: tiny good/bad twins, independent of /repo, that keep the
engine's primitives honest (a rule that silently stops firing would make every
zero-expected-instance obligation pass vacuously).  Run by `check --selfcheck`
and at the start of every thorough run."""
import ast
from .cfg import CFG
from . import q

COUNT = 0
def _fn (src):
  return ast.parse(src).body[0]
def _node (g, text):
  for n in g.nodes:
    if n.ast is not None and n.kind not in ('def',) and text in n.text(200): return n
  raise KeyError(text)

def run_all ():
  global COUNT
  bad = []; COUNT = 0
  def expect (name, cond):
    global COUNT
    COUNT += 1
    if not cond: bad.append(name)
  # dominance through early return (negated guard) vs no guard
  g = CFG(_fn("def f(self, p):\n  if len(self.b) >= self.max: return None\n  self.b.append(p)\n  return len(self.b)\n"))
  n = _node(g, 'self.b.append')
  expect('dom/early-return good', 'len(self.b) < self.max' in q.fact_strs(g, n))
  g = CFG(_fn("def f(self, p):\n  if len(self.b) >= self.max: log()\n  self.b.append(p)\n"))
  expect('dom/early-return bad', 'len(self.b) < self.max' not in q.fact_strs(g, _node(g, 'self.b.append')))
  # short-circuit splitting
  g = CFG(_fn("def f(a, b):\n  if a is not None and b > 3:\n    use(a)\n"))
  fs = q.fact_strs(g, _node(g, 'use(a)'))
  expect('shortcircuit and', 'a is not None' in fs and 'b > 3' in fs)
  g = CFG(_fn("def f(a, b):\n  if a is None or b <= 3: return\n  use(a)\n"))
  fs = q.fact_strs(g, _node(g, 'use(a)'))
  expect('shortcircuit or/neg', 'a is not None' in fs and 'b > 3' in fs)
  # postdominance
  g = CFG(_fn("def f(s, i):\n  emit(s.b[i])\n  s.b[i] = None\n"))
  expect('postdom good', g.postdominates(_node(g, 's.b[i] = None'), _node(g, 'emit')))
  g = CFG(_fn("def f(s, i):\n  emit(s.b[i])\n  if s.keep: return\n  s.b[i] = None\n"))
  expect('postdom bad', not g.postdominates(_node(g, 's.b[i] = None'), _node(g, 'emit')))
  # effect intervals
  g = CFG(_fn("def f(s, x):\n  if x: s.send(1)\n  else: s.send(2)\n"))
  sends = g.nodes_with_call(lambda c: q.call_name(c) == 'send')
  expect('interval exactly-once', g.interval(lambda n: n in sends) == (1, 1))
  g = CFG(_fn("def f(s, x):\n  if x: s.send(1)\n  s.send(2)\n"))
  sends = g.nodes_with_call(lambda c: q.call_name(c) == 'send')
  expect('interval 1..2', g.interval(lambda n: n in sends) == (1, 2))
  g = CFG(_fn("def f(s, xs):\n  for x in xs: s.send(x)\n"))
  sends = g.nodes_with_call(lambda c: q.call_name(c) == 'send')
  expect('interval loop many', g.interval(lambda n: n in sends) == (0, 2))
  # try/except containment
  g = CFG(_fn("def f(s):\n  try:\n    s.cb()\n  except:\n    log()\n  return 1\n"))
  n = _node(g, 's.cb()')
  expect('try catch-all', not g.raises_out(n))
  g = CFG(_fn("def f(s):\n  try:\n    s.cb()\n  except ValueError:\n    log()\n  return 1\n"))
  expect('try narrow', g.raises_out(_node(g, 's.cb()')))
  # loops: break/continue and while True
  g = CFG(_fn("def f(s):\n  while True:\n    x = s.get()\n    if x is None: break\n    s.use(x)\n  s.done()\n"))
  expect('while-true exit via break', _node(g, 's.done()') in g.reachable(g.entry))
  expect('use guarded in loop', 'x is not None' in q.fact_strs(g, _node(g, 's.use(x)')))
  # mutation finder
  f = _fn("def f(self):\n  self._t.append(1)\n  self._t = []\n  del self._t[0]\n  self._t[1] = 2\n  other._t.sort()\n")
  kinds = sorted(k for k, s in q.mutations_of_attr(f, '_t'))
  expect('mutation finder', kinds == ['call:append', 'call:sort', 'delitem', 'rebind', 'setitem'])
  return bad
