"""Engine controls: tiny good/bad twins, independent of /repo, that keep the
engine's primitives honest (a rule that silently stops firing would make every
zero-expected-instance obligation pass vacuously).  Run by `check --selfcheck`
and at the start of every thorough run."""
import ast
from .cfg import CFG
from . import q

COUNT = 0
def _fn (src):
  return ast.parse(src).body[0]
def _node (g, text):
  for n in g.nodes:
    if n.ast is not None and n.kind not in ('def',) and text in n.text(200): return n
  raise KeyError(text)

def run_all ():
  global COUNT
  bad = []; COUNT = 0
  def expect (name, cond):
    global COUNT
    COUNT += 1
    if not cond: bad.append(name)
  # dominance through early return (negated guard) vs no guard
  g = CFG(_fn("def f(self, p):\n  if len(self.b) >= self.max: return None\n  self.b.append(p)\n  return len(self.b)\n"))
  n = _node(g, 'self.b.append')
  expect('dom/early-return good', 'len(self.b) < self.max' in q.fact_strs(g, n))
  g = CFG(_fn("def f(self, p):\n  if len(self.b) >= self.max: log()\n  self.b.append(p)\n"))
  expect('dom/early-return bad', 'len(self.b) < self.max' not in q.fact_strs(g, _node(g, 'self.b.append')))
  # short-circuit splitting
  g = CFG(_fn("def f(a, b):\n  if a is not None and b > 3:\n    use(a)\n"))
  fs = q.fact_strs(g, _node(g, 'use(a)'))
  expect('shortcircuit and', 'a is not None' in fs and 'b > 3' in fs)
  g = CFG(_fn("def f(a, b):\n  if a is None or b <= 3: return\n  use(a)\n"))
  fs = q.fact_strs(g, _node(g, 'use(a)'))
  expect('shortcircuit or/neg', 'a is not None' in fs and 'b > 3' in fs)
  # postdominance
  g = CFG(_fn("def f(s, i):\n  emit(s.b[i])\n  s.b[i] = None\n"))
  expect('postdom good', g.postdominates(_node(g, 's.b[i] = None'), _node(g, 'emit')))
  g = CFG(_fn("def f(s, i):\n  emit(s.b[i])\n  if s.keep: return\n  s.b[i] = None\n"))
  expect('postdom bad', not g.postdominates(_node(g, 's.b[i] = None'), _node(g, 'emit')))
  # effect intervals
  g = CFG(_fn("def f(s, x):\n  if x: s.send(1)\n  else: s.send(2)\n"))
  sends = g.nodes_with_call(lambda c: q.call_name(c) == 'send')
  expect('interval exactly-once', g.interval(lambda n: n in sends) == (1, 1))
  g = CFG(_fn("def f(s, x):\n  if x: s.send(1)\n  s.send(2)\n"))
  sends = g.nodes_with_call(lambda c: q.call_name(c) == 'send')
  expect('interval 1..2', g.interval(lambda n: n in sends) == (1, 2))
  g = CFG(_fn("def f(s, xs):\n  for x in xs: s.send(x)\n"))
  sends = g.nodes_with_call(lambda c: q.call_name(c) == 'send')
  expect('interval loop many', g.interval(lambda n: n in sends) == (0, 2))
  # try/except containment
  g = CFG(_fn("def f(s):\n  try:\n    s.cb()\n  except:\n    log()\n  return 1\n"))
  n = _node(g, 's.cb()')
  expect('try catch-all', not g.raises_out(n))
  g = CFG(_fn("def f(s):\n  try:\n    s.cb()\n  except ValueError:\n    log()\n  return 1\n"))
  expect('try narrow', g.raises_out(_node(g, 's.cb()')))
  # loops: break/continue and while True
  g = CFG(_fn("def f(s):\n  while True:\n    x = s.get()\n    if x is None: break\n    s.use(x)\n  s.done()\n"))
  expect('while-true exit via break', _node(g, 's.done()') in g.reachable(g.entry))
  expect('use guarded in loop', 'x is not None' in q.fact_strs(g, _node(g, 's.use(x)')))
  # mutation finder
  f = _fn("def f(self):\n  self._t.append(1)\n  self._t = []\n  del self._t[0]\n  self._t[1] = 2\n  other._t.sort()\n")
  kinds = sorted(k for k, s in q.mutations_of_attr(f, '_t'))
  expect('mutation finder', kinds == ['call:append', 'call:sort', 'delitem', 'rebind', 'setitem'])
  # ---- normaliser (helper inlining, temporaries, constants) against an explicit vocabulary ----------------------
  from . import norm
  def normed (src, inv):
    t = ast.parse(src)
    saved = norm._INV; norm._INV = {'m': inv}
    try: t = norm.normalize_module(t, 'm', {})
    finally: norm._INV = saved
    return ast.unparse(t)
  inv = {'K.f': ['self', 'x'], '<module>': [], '<class K>': []}
  out = normed("class K:\n  def f(self, x):\n    if self._ok(x): return 1\n    return 2\n  def _ok(self, v):\n    if v is None: return False\n    return v > 3\n", inv)
  expect('norm inline guard-clause helper', '_ok' not in out and 'x is None' in out and 'x > 3' in out)
  out = normed("class K:\n  def f(self, x):\n    big = x > 3\n    if big: return 1\n    return 2\n", inv)
  expect('norm expands new temporary', 'big' not in out and 'if x > 3' in out)
  out = normed("class K:\n  def f(self, x):\n    big = x > 3\n    x = 0\n    if big: return 1\n    return 2\n", inv)
  expect('norm keeps temporary when an input is re-assigned in between', 'if big' in out)
  out = normed("LIMIT = 8\nclass K:\n  def f(self, x):\n    return x < LIMIT\n", inv)
  expect('norm inlines new literal constant', 'x < 8' in out)
  out = normed("class K:\n  def f(self, x):\n    for n in ('a', 'b'):\n      if getattr(self, n) is None: continue\n      if getattr(self, n) != getattr(x, n): return False\n    return True\n", inv)
  expect('norm unrolls name loops', 'self.a != x.a' in out and 'self.b != x.b' in out and 'getattr' not in out)
  inv2 = {'K.f': ['self', 'x', 'big'], '<module>': [], '<class K>': []}
  out = normed("class K:\n  def f(self, x):\n    big = x > 3\n    if big: return 1\n    return 2\n", inv2)
  expect('norm leaves reference locals alone', 'if big' in out)
  # N0 alpha-normalisation: a pure renaming of locals is undone, anything else is left alone; table loops and struct objects
  ref_src = "class K:\n  def f(self, x):\n    total = 0\n    for item in x:\n      total += item\n    return total\n"
  sk = norm.module_skeletons(ast.parse(ref_src))
  def alpha (src):
    t = ast.parse(src); saved = norm._SKEL; norm._SKEL = {'m': sk}
    try: n_ = norm.alpha_rename(t, 'm')
    finally: norm._SKEL = saved
    return n_, ast.unparse(t)
  n_, out = alpha("class K:\n  def f(self, x):\n    acc = 0\n    for e in x:\n      acc += e\n    return acc\n")
  expect('alpha: renamed locals get the reference names back', n_ == 1 and 'total += item' in out and 'acc' not in out)
  n_, out = alpha("class K:\n  def f(self, x):\n    acc = 0\n    for e in x:\n      acc += e\n    return e\n")
  expect('alpha: a different shape is left alone', n_ == 0 and 'acc' in out)
  n_, out = alpha("class K:\n  def f(self, x):\n    acc = 0\n    for acc in x:\n      acc += acc\n    return acc\n")
  expect('alpha: a renaming that merges two locals is left alone', n_ == 0)
  inv3 = {'K.f': ['self', 'x'], '<module>': [], '<class K>': []}
  out = normed("import struct\nHDR = struct.Struct('!BBH')\nclass K:\n  def f(self, x):\n    return HDR.unpack_from(x, 4)\n", inv3)
  expect('norm rewrites precompiled struct objects', "struct.unpack_from('!BBH', x, 4)" in out)
  out = normed("class K:\n  T = ((1, 'a'), (2, 'b'))\n  def f(self, x):\n    if len(x) < 2: return 0\n    for v, (k, s) in zip(x, self.T):\n      if v != k: return s\n    return None\n", inv3)
  expect('norm unrolls a loop over a new literal table', 'x[0] != 1' in out and "x[1] != 2" in out and 'zip' not in out)
  out = normed("class K:\n  T = ((1, 'a'), (2, 'b'))\n  def f(self, x):\n    for v, (k, s) in zip(x, self.T):\n      if v != k: return s\n    return None\n", inv3)
  expect('norm keeps a table loop when the sequence length is not established', 'zip' in out)
  # dynamic dispatch: a helper overridden by a subclass is never inlined; a helper another file mentions is never dropped
  inv4 = {'B.f': ['self', 'x'], 'D.g': ['self'], '<module>': [], '<class B>': [], '<class D>': []}
  out = normed("class B:\n  def f(self, x):\n    return self._h(x)\n  def _h(self, v):\n    return v + 1\nclass D(B):\n  def g(self):\n    return 0\n  def _h(self, v):\n    return v + 2\n", inv4)
  expect('norm does not inline an overridden helper', 'self._h(x)' in out)
  def normed_ext (src, inv_):
    t = ast.parse(src); saved = norm._INV; norm._INV = {'m': inv_}
    try: t = norm.normalize_module(t, 'm', {}, external=lambda nm: nm in ('_h', 'm'))
    finally: norm._INV = saved
    return ast.unparse(t)
  out = normed_ext("def f(x):\n  return _h(x)\ndef _h(v):\n  return v + 1\n", {'f': ['x'], '<module>': []})
  expect('norm keeps a helper that another file mentions', 'def _h' in out and 'x + 1' in out)
  out = normed("class K:\n  def f(self, x):\n    tbl = self.handlers\n    for m in x:\n      h = tbl[m]\n      h(self, m)\n", {'K.f': ['self', 'x', 'm', 'h'], '<module>': [], '<class K>': []})
  expect('norm keeps an attribute alias across calls that receive the owner', 'tbl[m]' in out)
  out = normed("class K:\n  def f(self, x):\n    tbl = self.handlers\n    for m in x:\n      log.debug(tbl[m])\n", {'K.f': ['self', 'x', 'm'], '<module>': [], '<class K>': []})
  expect('norm expands an attribute alias when nothing can re-bind it', 'self.handlers[m]' in out)
  out = normed("def make(ev):\n  def handler(con, parts):\n    con.raiseEvent(ev, parts[0])\n  return handler\nhandle_A = make(EventA)\n", {'<module>': []})
  expect('norm instantiates a simple function factory', 'def handle_A(con, parts)' in out and 'con.raiseEvent(EventA, parts[0])' in out)
  inv5 = {'A._drop': ['self', 'x'], 'A.f': ['self'], 'B.g': ['self', 'o'], '<module>': [], '<class A>': [], '<class B>': []}
  out = normed("class A:\n  def _drop(self, x):\n    self.items.remove(x)\n  def f(self):\n    return 1\nclass B:\n  def g(self, o):\n    o._drop(1)\n    self._drop(2)\n  def _drop(self, v):\n    self.q.pop(v)\n", inv5)
  expect('norm resolves a new helper only on its own class (another object with an older method of that name is left alone)', 'o._drop(1)' in out and 'self.q.pop(2)' in out)
  # ---- evaluation along paths ----------------------------------------------------------------------------------
  class _M(object):
    name = 'm'; short = 'm'
    def lookup (self, n, _d=0): return None
  class _R(object):
    def try_const (self, module, e, cls=None, default=None):
      try: return ast.literal_eval(e)
      except Exception: return default
    def const (self, *a, **k): raise Exception()
  f = _fn("def f(m):\n  p = m.out\n  if p == 65535: p = None\n  return g(p)\n")
  g = CFG(f); call = _node(g, 'g(p)')
  try:
    v1 = q.values_at(_R(), None, g, q.Env({'m.out': 7}), call, ast.parse('p', mode='eval').body, None)
    v2 = q.values_at(_R(), None, g, q.Env({'m.out': 65535}), call, ast.parse('p', mode='eval').body, None)
  except Exception: v1 = v2 = None
  expect('values_at constant propagation', v1 == {7} and v2 == {None})
  f = _fn("def f(parts):\n  out = []\n  for p in parts:\n    out.extend(p.body)\n  return h(out)\n")
  g = CFG(f)
  try: v = q.values_at(_R(), None, g, q.Env({'parts': [q.Rec(body=[1, 2]), q.Rec(body=[3])]}), _node(g, 'h(out)'), ast.parse('out', mode='eval').body, None)
  except Exception: v = None
  expect('values_at list growth over sample records', v == {repr([1, 2, 3])})
  # ---- reaching definitions / provenance ---------------------------------------------------------------------------
  f = _fn("def f(self):\n  r = None\n  for i, v in enumerate(self.b):\n    if v is None:\n      r = i\n      break\n  if r is not None:\n    self.b[r] = 1\n")
  g = CFG(f)
  pv = q.provenance(g, _node(g, 'self.b[r] = 1'), 'r')
  expect('provenance through copy', sorted(k for d, k, v in pv) == ['assign', 'for'])
  # R-DIM: positions and sizes (pxa/dims.py) - the in-place walk that compares a position with the declared length must be reported,
  # the walk to an end position must not
  from . import dims
  bad_dim = _fn("def unpack(self, raw, offset=0):\n  offset, length = self._unpack_header(raw, offset)\n  offset, packed = _read(raw, offset, length - 12)\n  pos = offset - len(packed)\n"
                "  while pos < length:\n    pos = part.unpack(raw, pos, length - pos)\n  return offset, length\n")
  r = dims.analyse(bad_dim)
  expect('dims bad (position < size, size - position)', r is not None and len(r) >= 2)
  good_dim = _fn("def unpack(self, raw, offset=0):\n  start = offset\n  offset, length = self._unpack_header(raw, offset)\n  end = start + length\n"
                 "  while offset < end:\n    offset = part.unpack(raw, offset, end - offset)\n  return offset, length\n")
  expect('dims good (walk to an end position)', dims.analyse(good_dim) == [])
  expect('dims n/a (no offset parameter)', dims.analyse(_fn("def f(a, b):\n  return a < b\n")) is None)
  # local copies of attribute chains put back
  fn = _fn("def h(self, event):\n  in_port = event.port\n  packet = event.parsed\n  self.m[packet.src] = in_port\n")
  done = q.inline_attr_copies(fn, set(['self', 'event']), keep=('packet',))
  expect('inline_attr_copies', done == ['in_port'] and 'event.port' in ast.unparse(fn) and 'packet = event.parsed' in ast.unparse(fn))
  fn = _fn("def h(self, event):\n  p = event.port\n  p = 3\n  use(p)\n")
  expect('inline_attr_copies leaves re-bound locals alone', q.inline_attr_copies(fn, set(['event'])) == [])
  fn = _fn("def c(adj, s1, s2):\n  for s1 in S:\n    row = adj[s1]\n    if s2 not in row: continue\n    row[s2] = 1\n")
  expect('inline_container_aliases', q.inline_container_aliases(fn, 'adj') == ['row'] and 'adj[s1][s2] = 1' in ast.unparse(fn))
  fn = _fn("def c(adj, s1):\n  v = adj[s1]\n  adj[s1] = 0\n  use(v)\n")
  expect('inline_container_aliases leaves values alone', q.inline_container_aliases(fn, 'adj') == [])
  return bad
