"""R-DEF: definiteness rules - undefined global/free names, use before
assignment on a feasible path, attributes that no class in reach defines,
arity of resolved calls.  Applied only inside the functions a property's
mechanism consists of (not a repo-wide lint)."""
import ast, builtins, symtable
from . import q
from .model import Func, Cls, ModRef, walk_no_nested, calls_in, call_name, norm

_BUILTINS = set(dir(builtins)) | {'__file__', '__name__', '__doc__', '__package__', '__builtins__', '__spec__', '__loader__', '__path__', '__class__'}
_symtabs = {}

def _symtab (module):
  st = _symtabs.get(module.name)
  if st is None:
    st = _symtabs[module.name] = symtable.symtable(module.src, module.path, 'exec')
  return st

def _find_table (tab, name, lineno):
  for c in tab.get_children():
    if c.get_name() == name and c.get_lineno() == lineno: return c
    r = _find_table(c, name, lineno)
    if r is not None: return r
  return None

def _first_line (fnode):
  # symtable reports the line of the first decorator (3.8+ reports def line) - try both
  lines = [fnode.lineno]
  if fnode.decorator_list: lines.append(min(d.lineno for d in fnode.decorator_list))
  return lines

def undefined_names (repo, func):
  """[(name, astnode)] for names used in func (and nested scopes) that resolve
  to implicit globals which the module does not define"""
  module = func.module
  tab = None
  for ln in _first_line(func.node):
    tab = _find_table(_symtab(module), func.node.name, ln)
    if tab is not None: break
  if tab is None: return []
  out = []
  def visit (t, fnode):
    globs = set()
    for s in t.get_symbols():
      if s.is_global() and s.is_referenced():
        globs.add(s.get_name())
    if globs:
      nodes = ast.walk(fnode) if t.get_type() != 'function' else _own_nodes(fnode)
      for n in nodes:
        if isinstance(n, ast.Name) and n.id in globs and isinstance(n.ctx, ast.Load):
          if not _global_defined(repo, module, n.id):
            out.append((n.id, n))
    for c in t.get_children():
      sub = _child_node(fnode, c)
      if sub is not None: visit(c, sub)
  visit(tab, func.node)
  # de-duplicate by (name, line)
  seen = set(); res = []
  for nm, n in out:
    k = (nm, n.lineno, n.col_offset)
    if k not in seen: seen.add(k); res.append((nm, n))
  return res

def _own_nodes (fnode):
  """nodes of this scope: the function body without nested scopes, but the
  default-argument / decorator expressions of nested defs belong to us"""
  for n in walk_no_nested(fnode):
    yield n

def _child_node (fnode, childtab):
  nm = childtab.get_name(); ln = childtab.get_lineno()
  for n in ast.walk(fnode):
    if n is fnode: continue
    if isinstance(n, (ast.FunctionDef, ast.AsyncFunctionDef, ast.ClassDef)) and n.name == nm and ln in _first_line(n):
      return n
    if isinstance(n, ast.Lambda) and nm == 'lambda' and n.lineno == ln: return n
    if isinstance(n, (ast.ListComp, ast.SetComp, ast.DictComp, ast.GeneratorExp)) and n.lineno == ln and nm in ('listcomp', 'setcomp', 'dictcomp', 'genexpr'):
      return n
  return None

def _global_defined (repo, module, name):
  if name in _BUILTINS: return True
  if module.lookup(name) is not None: return True
  if name in module.exports(): return True
  # names bound anywhere at module level by constructs _collect does not model
  # (global statements inside functions, del, exec): look for `global name`
  for n in ast.walk(module.tree):
    if isinstance(n, ast.Global) and name in n.names: return True
  # star import from a module outside the repo (stdlib): cannot know -> defined
  for sm in module.stars:
    if sm not in repo.modules:
      if _external_has(sm, name): return True
  for sm in _all_star_mods(repo, module):
    m = repo.modules.get(sm)
    if m is not None:
      for s2 in m.stars:
        if s2 not in repo.modules and _external_has(s2, name): return True
  return False

def _all_star_mods (repo, module, seen=None):
  seen = seen if seen is not None else set()
  for sm in module.stars:
    if sm in seen: continue
    seen.add(sm)
    m = repo.modules.get(sm)
    if m is not None: _all_star_mods(repo, m, seen)
  return seen

_ext_cache = {}
def _external_has (modname, name):
  """stdlib module star-imported: consult its real namespace (stdlib only)"""
  if modname not in _ext_cache:
    try:
      import importlib
      if modname.split('.')[0] in ('pox', 'ext'): raise ImportError
      m = importlib.import_module(modname)
      _ext_cache[modname] = set(getattr(m, '__all__', None) or [k for k in dir(m) if not k.startswith('_')])
    except Exception:
      _ext_cache[modname] = None
  s = _ext_cache[modname]
  return True if s is None else name in s

# ---------------------------------------------------------------------------
# use before assignment

def _stores_of_node (n):
  """local names (re)bound by CFG node n"""
  out = set()
  a = n.ast
  if a is None: return out
  if n.kind == 'for':
    for t in q._flatten(a.target):
      if isinstance(t, ast.Name): out.add(t.id)
    return out
  if n.kind == 'def':
    out.add(a.name); return out
  if n.kind == 'handler':
    if a.name: out.add(a.name)
    return out
  if isinstance(a, ast.With):
    for i in a.items:
      if i.optional_vars is not None:
        for t in q._flatten(i.optional_vars):
          if isinstance(t, ast.Name): out.add(t.id)
    return out
  if isinstance(a, (ast.Import, ast.ImportFrom)):
    for al in a.names: out.add((al.asname or al.name).split('.')[0])
    return out
  for x in walk_no_nested(a) if not isinstance(a, ast.Name) else [a]:
    if isinstance(x, ast.Name) and isinstance(x.ctx, (ast.Store,)): out.add(x.id)
    if isinstance(x, ast.NamedExpr) and isinstance(x.target, ast.Name): out.add(x.target.id)
  if isinstance(a, ast.Assign):
    for t in a.targets:
      for tt in q._flatten(t):
        if isinstance(tt, ast.Name): out.add(tt.id)
  if isinstance(a, ast.AugAssign) and isinstance(a.target, ast.Name): out.add(a.target.id)
  if isinstance(a, ast.AnnAssign) and isinstance(a.target, ast.Name) and a.value is not None: out.add(a.target.id)
  return out

def _loads_of_node (n):
  a = n.ast
  if a is None or n.kind in ('def', 'handler'): return []
  if n.kind == 'for': return []
  srcs = [a]
  if isinstance(a, ast.With): srcs = [i.context_expr for i in a.items]
  out = []
  for s in srcs:
    for x in ([s] if isinstance(s, ast.Name) else []) + list(walk_no_nested(s)):
      if isinstance(x, ast.Name) and isinstance(x.ctx, ast.Load): out.append(x)
    if isinstance(s, ast.AugAssign) and isinstance(s.target, ast.Name):
      out.append(s.target)
  # comprehension variables are their own scope
  comp_vars = set()
  for s in srcs:
    for x in walk_no_nested(s):
      if isinstance(x, ast.comprehension):
        for t in q._flatten(x.target):
          if isinstance(t, ast.Name): comp_vars.add(t.id)
  return [x for x in out if x.id not in comp_vars]

def use_before_def (func, limit=400):
  """[(name, load_ast, path_desc)] - local names loaded on some feasible path
  on which no assignment precedes the load"""
  fnode = func.node if isinstance(func, Func) else func
  g = q.cfg_of(fnode)
  params = set(a.arg for a in fnode.args.posonlyargs + fnode.args.args + fnode.args.kwonlyargs)
  if fnode.args.vararg: params.add(fnode.args.vararg.arg)
  if fnode.args.kwarg: params.add(fnode.args.kwarg.arg)
  declared_global = set()
  for n in walk_no_nested(fnode):
    if isinstance(n, (ast.Global, ast.Nonlocal)): declared_global.update(n.names)
  stores = {}
  for n in g.nodes:
    for nm in _stores_of_node(n): stores.setdefault(nm, set()).add(n)
  locals_ = set(stores) - params - declared_global
  out = []
  live = g.reachable(g.entry)
  for n in g.nodes:
    if n not in live: continue
    for ld in _loads_of_node(n):
      nm = ld.id
      if nm not in locals_: continue
      S = stores[nm]
      aug_self = n in S and isinstance(n.ast, ast.AugAssign)
      avoid = set(S)
      if n in avoid and not aug_self:
        # `x = f(x)`: the load happens before this node's own store
        pass
      # is n reachable from entry without passing a store (other than n itself)?
      r = g.reachable(g.entry, avoid=avoid - {n}) if True else None
      # entry itself might be in avoid? no.
      if n not in r: continue
      if n in S and not aug_self and not _loads_before_store(n, nm): continue
      # feasibility: find one avoiding path with no contradictory repeated test
      p = _feasible_path(g, n, avoid - {n}, limit)
      if p is None: continue
      out.append((nm, ld, p))
  # dedupe by name+line
  seen = set(); res = []
  for nm, ld, p in out:
    k = (nm, ld.lineno)
    if k in seen: continue
    seen.add(k); res.append((nm, ld, p))
  return res

def _loads_before_store (n, nm):
  a = n.ast
  if isinstance(a, ast.Assign):
    return any(isinstance(x, ast.Name) and x.id == nm for x in ast.walk(a.value))
  return True

def _feasible_path (g, target, avoid, limit):
  """DFS for a path entry->target avoiding `avoid`, rejecting paths that take
  both polarities of a syntactically identical test whose names are not
  reassigned in between.  Returns a printable path or None."""
  can_reach = set()
  # backward reachability to prune
  st = [target]; can_reach.add(target)
  while st:
    x = st.pop()
    for p, l in x.pred:
      if p in can_reach or p in avoid: continue
      can_reach.add(p); st.append(p)
  if g.entry not in can_reach: return None
  count = [0]
  def dfs (n, facts, visited, trail):
    count[0] += 1
    if count[0] > limit * 50: return None
    if n is target: return trail
    for m, l in n.succ:
      if m not in can_reach or m in avoid and m is not target: continue
      if (n.id, m.id) in visited: continue
      nf = facts
      if m.kind == 'branch' and not isinstance(m.label[0], (ast.For, ast.AsyncFor)):
        key = ast.unparse(m.label[0]); pol = m.label[1]
        if facts.get(key, pol) != pol: continue
        # a test of a plain flag whose last assignment on this path was a constant (the done-markers the normaliser introduces when it
        # inlines a helper with early returns, `ok = False ... if not ok:`) has only one feasible outcome
        t_ = m.label[0]; neg_ = False
        while isinstance(t_, ast.UnaryOp) and isinstance(t_.op, ast.Not): t_ = t_.operand; neg_ = not neg_
        if isinstance(t_, ast.Name) and ('=' + t_.id) in facts and (bool(facts['=' + t_.id]) != neg_) != pol: continue
        nf = dict(facts); nf[key] = pol
      elif m.ast is not None:
        killed = _stores_of_node(m)
        if killed:
          nf = dict((k, v) for k, v in facts.items() if not any(_mentions(k, nm) for nm in killed))
        if isinstance(m.ast, ast.Assign) and len(m.ast.targets) == 1 and isinstance(m.ast.targets[0], ast.Name) and isinstance(m.ast.value, ast.Constant) and m.kind == 'stmt':
          if nf is facts: nf = dict(facts)
          nf['=' + m.ast.targets[0].id] = m.ast.value.value
      r = dfs(m, nf, visited | {(n.id, m.id)}, trail + ([m.line] if m.line and (not trail or trail[-1] != m.line) else []))
      if r is not None: return r
    return None
  return dfs(g.entry, {}, frozenset(), [])

def _mentions (text, nm):
  import re
  return re.search(r'\b%s\b' % re.escape(nm), text) is not None

# ---------------------------------------------------------------------------
# attributes of codec-like ("closed") classes

def class_fields (repo, cls):
  """attribute names instances of cls certainly may carry: assigned on self in
  any method of the MRO, class-level assigns, methods/properties, __slots__,
  and names injected by the repo's class decorators"""
  out = set()
  open_ = False
  for c in cls.mro():
    out.update(c.methods.keys()); out.update(c.assigns.keys()); out.update(c.inner.keys())
    if '__getattr__' in c.methods or '__getattribute__' in c.methods: open_ = True
    if getattr(c, 'unresolved_bases', None) is None: c.bases()
    if [b for b in c.unresolved_bases if b != 'object']: open_ = True
    for f in c.methods.values():
      for n in ast.walk(f.node):
        if isinstance(n, ast.Attribute) and isinstance(n.ctx, ast.Store) and isinstance(n.value, ast.Name) and n.value.id == (f.params[0] if f.params else 'self'):
          out.add(n.attr)
    for d in c.node.decorator_list:
      dn = d.func if isinstance(d, ast.Call) else d
      nm = dn.id if isinstance(dn, ast.Name) else getattr(dn, 'attr', None)
      if nm in ('openflow_message', 'openflow_sc_message', 'openflow_c_message', 'openflow_s_message'):
        out.update(('header_type', '_from_switch', '_from_controller'))
      elif nm == 'openflow_action': out.add('type')
      elif nm == 'openflow_queue_prop': out.add('property')
      elif nm in ('openflow_stats_request', 'openflow_stats_reply'): out.add('_type')
    sl = c.assigns.get('__slots__')
    if sl is not None:
      v = repo.try_const(c.module, sl)
      if isinstance(v, (list, tuple)): out.update(v)
  return out, open_

def arity_ok (func, call, bound=True):
  """can `call` bind to func's signature? (positional count + keyword names)"""
  a = func.node.args
  params = [x.arg for x in a.posonlyargs + a.args]
  if bound and params and not func.is_static: params = params[1:]
  n_def = len(a.defaults)
  required = params[:len(params) - n_def] if n_def else params
  if any(isinstance(x, ast.Starred) for x in call.args) or any(k.arg is None for k in call.keywords):
    return True
  npos = len(call.args)
  if npos > len(params) and a.vararg is None: return False
  kws = [k.arg for k in call.keywords]
  kwonly = [x.arg for x in a.kwonlyargs]
  for k in kws:
    if k not in params and k not in kwonly and a.kwarg is None: return False
    if k in params[:npos]: return False
  for i, p in enumerate(required):
    if i >= npos and p not in kws: return False
  return True

def except_name_escapes (fnode):
  """[(name, closure_ast, use_ast)] - a lambda / nested def created inside an
  `except ... as NAME:` body that reads NAME and is used after the handler ended.
  Python 3 deletes NAME at the end of the handler, so the closure raises NameError."""
  out = []
  for h in ast.walk(fnode):
    if not isinstance(h, ast.ExceptHandler) or not h.name: continue
    inside = set()
    for st in h.body:
      for x in ast.walk(st): inside.add(id(x))
    for st in h.body:
      for x in ast.walk(st):
        if isinstance(x, (ast.Lambda, ast.FunctionDef)) and any(isinstance(y, ast.Name) and y.id == h.name and isinstance(y.ctx, ast.Load) for y in ast.walk(x)):
          # which variable holds the closure?
          holder = None
          for a in ast.walk(st):
            if isinstance(a, ast.Assign) and a.value is x and isinstance(a.targets[0], ast.Name): holder = a.targets[0].id
          if isinstance(x, ast.FunctionDef): holder = x.name
          if holder is None: continue
          for u in ast.walk(fnode):
            if isinstance(u, ast.Name) and u.id == holder and isinstance(u.ctx, ast.Load) and id(u) not in inside:
              out.append((h.name, x, u)); break
  return out
