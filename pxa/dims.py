"""R-DIM: positions and sizes are different dimensions.

A decoder works with two kinds of integers: *positions* in the buffer it was handed (its `offset` parameter and whatever the
reading helpers return as the new offset) and *sizes* (the declared length of the message, len() of something else, an `avail` /
`length` parameter).  position - position is a size, position +/- size is a position, size +/- size is a size; a position compared
with a size, a size minus a position, position + position, a position handed to a helper where it expects a size (or the other
way round) only give the intended answer when the buffer happens to start at position 0 - i.e. for the first message of a read -
and mis-frame every later one.  Flow-insensitive per function; a name that receives both kinds, or anything the rule cannot
classify, is unknown and never reported.  len() of the function's own buffer is both an end position and a size (compatible with
either), integer literals likewise."""
import ast
POS, SIZE, ANY, UNK = 'position', 'size', 'any', '?'
# helper -> (index of the position argument, index of the size argument)
HELPERS = {'_read': (1, 2), '_unpack': (2, None), '_skip': (1, 2), '_unpack_header': (1, None), '_readzs': (1, 2), '_readether': (1, None), '_readip': (1, None)}
SIZE_PARAMS = ('length', 'avail', 'num', 'size')

def _join (a, b):
  if a is None: return b
  if b is None: return a
  if a == b: return a
  if a == ANY: return b
  if b == ANY: return a
  return UNK

def _cname (call):
  f = call.func
  return f.id if isinstance(f, ast.Name) else (f.attr if isinstance(f, ast.Attribute) else None)

def applies (fn):
  args = [a.arg for a in fn.args.posonlyargs + fn.args.args]
  if 'offset' not in args: return None
  i = args.index('offset')
  if i == 0 or args[i - 1] in ('self', 'cls'): return None
  return args[i - 1]

def analyse (fn):
  """-> list of (ast node, what) for one function with an `offset` parameter, or None when the rule does not apply"""
  buf = applies(fn)
  if buf is None: return None
  env = {'offset': POS}
  for a in fn.args.posonlyargs + fn.args.args:
    if a.arg in SIZE_PARAMS: env[a.arg] = SIZE
  out = []
  def dim (e):
    if isinstance(e, ast.Constant) and isinstance(e.value, int) and not isinstance(e.value, bool): return ANY
    if isinstance(e, ast.Name): return env.get(e.id, UNK)
    if isinstance(e, ast.Call):
      nm = _cname(e)
      if nm == 'len' and len(e.args) == 1:
        if isinstance(e.args[0], ast.Name) and e.args[0].id == buf: return ANY
        return SIZE
      if nm in ('min', 'max') and e.args and not e.keywords:
        d = None
        for a in e.args: d = _join(d, dim(a))
        return d
      return UNK
    if isinstance(e, ast.BinOp) and isinstance(e.op, (ast.Add, ast.Sub)):
      l, r = dim(e.left), dim(e.right)
      if UNK in (l, r): return UNK
      if l == ANY and r == ANY: return ANY
      if isinstance(e.op, ast.Add):
        if l == POS and r == POS: out.append((e, 'position + position')); return UNK
        if ANY in (l, r): return UNK
        return POS if POS in (l, r) else SIZE
      if l == POS and r == POS: return SIZE
      if l == POS and r == SIZE: return POS
      if l == SIZE and r == POS: out.append((e, 'size - position')); return UNK
      if l == SIZE and r == SIZE: return SIZE
      return UNK
    if isinstance(e, ast.BinOp) and isinstance(e.op, (ast.Mult, ast.FloorDiv, ast.Mod, ast.BitAnd, ast.RShift, ast.LShift)):
      return SIZE if dim(e.left) in (SIZE, ANY) and dim(e.right) in (SIZE, ANY) else UNK
    return UNK
  def bind (t, d):
    if isinstance(t, ast.Name): env[t.id] = _join(env[t.id], d) if t.id in env else d
  for _ in range(4):          # flow-insensitive fixpoint over the assignments
    for n in ast.walk(fn):
      if isinstance(n, ast.Assign) and len(n.targets) == 1:
        t = n.targets[0]; v = n.value
        if isinstance(t, ast.Tuple):
          if isinstance(v, ast.Call) and _cname(v) in HELPERS and t.elts:
            bind(t.elts[0], POS)
            if _cname(v) == '_unpack_header' and len(t.elts) == 2: bind(t.elts[1], SIZE)
            for x in t.elts[1:]:
              if _cname(v) != '_unpack_header': bind(x, UNK)
          elif isinstance(v, ast.Tuple) and len(v.elts) == len(t.elts):
            for x, y in zip(t.elts, v.elts): bind(x, dim(y))
          else:
            for x in ast.walk(t):
              if isinstance(x, ast.Name): bind(x, UNK)
        elif isinstance(t, ast.Name):
          if isinstance(v, ast.Call) and (_cname(v) == '_skip' or (_cname(v) in ('unpack', '_unpack_body') and len(v.args) >= 2)): bind(t, POS)
          else: bind(t, dim(v))
      elif isinstance(n, ast.AugAssign) and isinstance(n.target, ast.Name):
        bind(n.target, dim(ast.BinOp(left=ast.Name(id=n.target.id, ctx=ast.Load()), op=n.op, right=n.value)))
      elif isinstance(n, (ast.For, ast.comprehension)):
        for x in ast.walk(n.target):
          if isinstance(x, ast.Name): bind(x, UNK)
      elif isinstance(n, (ast.With, ast.ExceptHandler, ast.NamedExpr)):
        for x in ast.walk(n):
          if isinstance(x, ast.Name) and isinstance(x.ctx, ast.Store) and not isinstance(n, ast.NamedExpr): pass
    del out[:]
  for n in ast.walk(fn):
    if isinstance(n, ast.Compare) and len(n.ops) == 1 and isinstance(n.ops[0], (ast.Lt, ast.LtE, ast.Gt, ast.GtE, ast.Eq, ast.NotEq)):
      if {dim(n.left), dim(n.comparators[0])} == {POS, SIZE}: out.append((n, 'position compared with a size'))
    elif isinstance(n, ast.BinOp): dim(n)
    elif isinstance(n, ast.Call) and _cname(n) in HELPERS:
      pi, si = HELPERS[_cname(n)]
      if pi is not None and len(n.args) > pi and dim(n.args[pi]) == SIZE: out.append((n, 'size passed where the helper expects a position'))
      if si is not None and len(n.args) > si and dim(n.args[si]) == POS: out.append((n, 'position passed where the helper expects a size'))
  seen = set(); res = []
  for e, w in out:
    k = (e.lineno, e.col_offset, w)
    if k not in seen: seen.add(k); res.append((e, w))
  return res
