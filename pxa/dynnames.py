"""Models of the three places where the repository generates module globals at
import time.  Each model re-derives names/values from the literals in the
*current* source and first checks that the generator still has the assumed
shape; otherwise AnalysisError (exit 2).

 * libopenflow_01._init(): every `ofp_*_rev_map` dict literal, plus the
   decorator-registered maps (openflow_message & co. add to *_rev_map),
   produce globals `NAME = value` for each entry.
 * nicira._init_constants(): `for i,name in enumerate(<list literal>):
   globals()[name] = i`
 * nicira._make_nxm / _make_nxm_w calls with literal name/vendor/field/len.
"""
import ast
from .model import AnalysisError, deco_name

# decorator -> (rev_map it feeds, index of name arg, index of value arg)
OF_DECOS = {
  'openflow_message': 'ofp_type', 'openflow_sc_message': 'ofp_type',
  'openflow_c_message': 'ofp_type', 'openflow_s_message': 'ofp_type',
  'openflow_action': 'ofp_action_type',
  'openflow_queue_prop': 'ofp_queue_prop_type',
  'openflow_stats_request': 'ofp_stats_type', 'openflow_stats_reply': 'ofp_stats_type',
}

def _writes_globals_subscript (fn):
  for n in ast.walk(fn):
    if isinstance(n, ast.Assign):
      for t in n.targets:
        if isinstance(t, ast.Subscript) and isinstance(t.value, ast.Call) and \
           isinstance(t.value.func, ast.Name) and t.value.func.id == 'globals':
          return True
  return False

def registrations (repo, module):
  """All decorator registrations in a module: list of
  (deco, kind, name, value, clsnode, call)"""
  out = []
  for c in module.classes.values():
    for d in c.node.decorator_list:
      if not isinstance(d, ast.Call): continue
      dn = deco_name(d)
      if dn not in OF_DECOS: continue
      name = repo.try_const(module, d.args[0]) if d.args else None
      val = None
      if len(d.args) > 1: val = _lit(d.args[1])
      for k in d.keywords:
        if k.arg == 'type_val': val = _lit(k.value)
      out.append((dn, OF_DECOS[dn], name, val, c, d))
  return out

def _lit (e):
  try: return ast.literal_eval(e)
  except Exception: return None

def compute (repo, module):
  d = {}
  if module.name == 'pox.openflow.libopenflow_01':
    init = module.funcs.get('_init')
    if init is None or not _writes_globals_subscript(init.node):
      raise AnalysisError("libopenflow_01._init no longer generates globals the modelled way")
    called = any(isinstance(s, ast.Expr) and isinstance(s.value, ast.Call) and
                 isinstance(s.value.func, ast.Name) and s.value.func.id == '_init'
                 for s in module.tree.body)
    if not called: raise AnalysisError("libopenflow_01._init() is not called at module level")
    maps = {}
    for name, val in module.assigns.items():
      if name.startswith('ofp_') and name.endswith('_rev_map') and isinstance(val, ast.Dict):
        m = {}
        for k, v in zip(val.keys, val.values):
          try: m[ast.literal_eval(k)] = ast.literal_eval(v)
          except Exception:
            try: m[ast.literal_eval(k)] = _arith(v)
            except Exception: pass
        maps[name[:-8]] = m
    for dn, kind, name, val, c, call in registrations(repo, module):
      if name is not None and val is not None:
        maps.setdefault(kind, {})[name] = val
    for kind, m in maps.items():
      for k, v in m.items(): d[k] = v
      fwd = dict((v, k) for k, v in m.items())
      if len(fwd) == len(m) and (kind + '_map') not in module.assigns:
        d[kind + '_map'] = fwd
      d['__revmap__' + kind] = m
  elif module.name == 'pox.openflow.nicira':
    ic = module.funcs.get('_init_constants')
    if ic is not None:
      if not _writes_globals_subscript(ic.node):
        raise AnalysisError("nicira._init_constants no longer generates globals the modelled way")
      lst = None
      for s in ic.node.body:
        if isinstance(s, ast.Assign) and isinstance(s.value, ast.List):
          lst = [e.value for e in s.value.elts if isinstance(e, ast.Constant)]
      if lst is None: raise AnalysisError("nicira._init_constants: literal list not found")
      for i, n in enumerate(lst): d[n] = i
    rows = []
    for s in module.tree.body:
      if isinstance(s, ast.Expr) and isinstance(s.value, ast.Call) and \
         isinstance(s.value.func, ast.Name) and s.value.func.id in ('_make_nxm', '_make_nxm_w'):
        c = s.value
        try:
          vals = [ast.literal_eval(a) for a in c.args[:4]]
        except Exception:
          continue
        if len(vals) >= 3:
          rows.append({'name': vals[0], 'vendor': vals[1], 'field': vals[2],
                       'len': vals[3] if len(vals) > 3 else None,
                       'maskable': c.func.id == '_make_nxm_w', 'line': s.lineno})
          d[vals[0]] = ('nxm', vals[1], vals[2])
    d['__nxm_rows__'] = rows
  return d

def _arith (e):
  """integer arithmetic on literals (1 << 21, (1<<6)-1 ...)"""
  if isinstance(e, ast.Constant) and isinstance(e.value, int): return e.value
  if isinstance(e, ast.BinOp):
    a = _arith(e.left); b = _arith(e.right)
    return {ast.LShift: lambda: a << b, ast.RShift: lambda: a >> b, ast.BitOr: lambda: a | b, ast.BitAnd: lambda: a & b,
            ast.Add: lambda: a + b, ast.Sub: lambda: a - b, ast.Mult: lambda: a * b}[type(e.op)]()
  if isinstance(e, ast.UnaryOp) and isinstance(e.op, ast.USub): return -_arith(e.operand)
  raise ValueError(e)
