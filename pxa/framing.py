"""Role inference for the two OpenFlow framing loops (C02, C10).

Roles (DESIGN 5/C02):
  BUF    the bytes object indexed at cursor-relative constants 2 and 3
  CUR    the cursor added to those indices (None = implicit 0: BUF is re-peeked every iteration)
  WLEN   the variable whose definition is BUF[CUR+2] << 8 | BUF[CUR+3]  (or unpack_from('!H', BUF, CUR+2))
  LENV   a variable holding len(BUF) (optional)
  DECODE the call through the unpacker table with (BUF, CUR)
  DELIVER the call of the handler / callback with the decoded message
  ADVANCE the store to CUR or the consume call
"""
import ast, struct
from . import q
from .model import AnalysisError, calls_in, call_name, norm, walk_no_nested

class Loop(object):
  pass

_WLEN_CODE = {}
def _split_slice_unpacks (fn):
  """`a, b = BUF[x:x+2]` (two header bytes taken at once) is `a = BUF[x]; b = BUF[x+1]` for the rules below, which read single
  byte accesses; done once per function node, in place"""
  if getattr(fn, '_pxa_split_done', False): return
  fn._pxa_split_done = True
  for n in ast.walk(fn):
    for fld in ('body', 'orelse', 'finalbody'):
      blk = getattr(n, fld, None)
      if not isinstance(blk, list): continue
      for i, st in enumerate(list(blk)):
        if isinstance(st, ast.Assign) and len(st.targets) == 1 and isinstance(st.targets[0], ast.Tuple) and all(isinstance(e, ast.Name) for e in st.targets[0].elts) \
           and isinstance(st.value, ast.Subscript) and isinstance(st.value.slice, ast.Slice) and st.value.slice.step is None and st.value.slice.lower is not None and st.value.slice.upper is not None:
          lo, hi = st.value.slice.lower, st.value.slice.upper
          a = q.lin_terms(lo); b = q.lin_terms(hi)
          k = len(st.targets[0].elts)
          if a is None or b is None or a[0] != b[0] or b[1] - a[1] != k: continue
          new = []
          for j, e in enumerate(st.targets[0].elts):
            idx = lo if j == 0 else ast.BinOp(left=lo, op=ast.Add(), right=ast.Constant(value=j))
            if j and isinstance(lo, ast.BinOp) and isinstance(lo.op, ast.Add) and isinstance(lo.right, ast.Constant): idx = ast.BinOp(left=lo.left, op=ast.Add(), right=ast.Constant(value=lo.right.value + j))
            elif j and isinstance(lo, ast.Constant): idx = ast.Constant(value=lo.value + j)
            new.append(ast.copy_location(ast.Assign(targets=[ast.Name(id=e.id, ctx=ast.Store())], value=ast.Subscript(value=st.value.value, slice=idx, ctx=ast.Load()), lineno=st.lineno), st))
          pos = blk.index(st); blk[pos:pos + 1] = new
          q._cfgs.pop(id(fn), None)          # a CFG built before the split is stale
  ast.fix_missing_locations(fn)

def find_loop (repo, func):
  _split_slice_unpacks(func.node)
  g = q.cfg_of(func)
  fn = func.node
  cand = []
  for t, v, st, k in q.stores_in(fn, nested=False):
    if not isinstance(t, ast.Name) or v is None: continue
    r = _wlen_expr(v)
    if r is not None: cand.append((t.id, r, st))
  # alternative idiom: (..., wlen, ...) = struct.unpack_from(fmt, BUF[, CUR+k]) with a 2-byte field at header offset 2
  for n in walk_no_nested(fn):
    if isinstance(n, ast.Assign) and isinstance(n.value, ast.Call) and call_name(n.value) == 'unpack_from' and len(n.value.args) >= 2:
      fmt = repo.try_const(func.module, n.value.args[0])
      tg = n.targets[0]
      names = [e for e in tg.elts] if isinstance(tg, (ast.Tuple, ast.List)) else [tg]
      offs = field_offsets(fmt) if isinstance(fmt, str) else None
      if not offs or len(offs) != len(names): continue
      off = n.value.args[2] if len(n.value.args) > 2 else None
      b0, k0 = q.linear(off, None) if off is not None else (None, 0)
      import re as _re
      codes = []
      for cnt_, ch_ in _re.findall(r'(\d*)([a-zA-Z?])', fmt.lstrip('@=<>!')):
        codes += [ch_] if ch_ in 'sp' else [ch_] * (int(cnt_) if cnt_ else 1)
      codes = [c_ for c_ in codes if c_ != 'x']
      for i_, ((o, sz), nm) in enumerate(zip(offs, names)):
        if o + k0 == 2 and sz == 2 and isinstance(nm, ast.Name):
          cand.append((nm.id, ('unpack', n.value.args[1], b0), n))
          _WLEN_CODE[id(n)] = ((fmt[:1] if fmt[:1] in '@=<>!' else '@'), codes[i_] if i_ < len(codes) else '?')
  # the same variable computed by the same expression in several branches (an inlined helper's early returns duplicate code) is one candidate
  if len(cand) > 1 and len(set((c_[0], norm(c_[2].value) if isinstance(c_[2], ast.Assign) else id(c_[2])) for c_ in cand)) == 1: cand = cand[:1]
  if len(cand) != 1:
    raise AnalysisError("%s: cannot identify the wire-length variable uniquely (%d candidates)" % (func.qual, len(cand)))
  L = Loop(); L.func = func; L.g = g
  L.wlen_code = _WLEN_CODE.get(id(cand[0][2]))      # (byte order, struct code) when the length is read with struct.unpack_from
  if cand[0][1][0] == 'unpack':
    L.wlen, (_, buf, b2), L.wlen_stmt = cand[0]
    L.buf = norm(buf)
  else:
    L.wlen, (buf, hi, lo), L.wlen_stmt = cand[0]
    L.buf = norm(buf)
    b2, k2 = q.linear(hi, None); b3, k3 = q.linear(lo, None)
    if b2 != b3 or k3 - k2 != 1 or k2 != 2:
      raise AnalysisError("%s: length bytes are not read at cursor+2 / cursor+3 (%s, %s)" % (func.qual, norm(hi), norm(lo)))
  L.cur = b2            # text of cursor expression or None
  L.wlen_node = q.enclosing_stmt_node(g, L.wlen_stmt)
  # enclosing loop
  L.loop = None
  for (st, h, a) in g.loop_nodes:
    if any(x is L.wlen_stmt for x in ast.walk(st)):
      if L.loop is None or any(x is st for x in ast.walk(L.loop[0])): L.loop = (st, h, a)
  if L.loop is None: raise AnalysisError("%s: length read is not inside a loop" % func.qual)
  L.head, L.after = L.loop[1], L.loop[2]
  L.body = g.loop_body_nodes(L.head)
  # LENV
  L.lenv = None
  for t, v, st, k in q.stores_in(fn, nested=False):
    if isinstance(t, ast.Name) and isinstance(v, ast.Call) and call_name(v) == 'len' and norm(v.args[0]) == L.buf:
      L.lenv = t.id
  # BUF source: re-peeked each iteration?
  L.buf_defs = [(v, st) for t, v, st, k in q.stores_in(fn, nested=False) if norm(t) == L.buf]
  # DECODE: call whose args are (BUF, CUR or 0) and whose func is a subscript
  L.decode = []; L.decode_sub = {}
  for n in g.nodes:
    for c in q.node_calls(n):
      if len(c.args) == 2 and norm(c.args[0]) == L.buf:
        if isinstance(c.func, ast.Subscript):
          L.decode.append((n, c)); L.decode_sub[id(c)] = c.func
        elif isinstance(c.func, ast.Name):
          # a decoder fetched from the table earlier: every non-None origin of the local is a table lookup
          subs = []
          for d, kind, v in q.provenance(g, n, c.func.id):
            if kind == 'assign' and isinstance(v, ast.Constant) and v.value is None: continue
            if kind == 'assign' and isinstance(v, ast.Subscript): subs.append(v); continue
            subs = None; break
          if subs and len(set(norm(x) for x in subs)) == 1:
            L.decode.append((n, c)); L.decode_sub[id(c)] = subs[0]
  # DELIVER: a call passing the decoded message object
  L.msgvar = None; L.newoff = None
  for n, c in L.decode:
    if isinstance(n.ast, ast.Assign) and isinstance(n.ast.targets[0], ast.Tuple) and len(n.ast.targets[0].elts) == 2:
      L.newoff = norm(n.ast.targets[0].elts[0]); L.msgvar = norm(n.ast.targets[0].elts[1])
  L.deliver = []
  if L.msgvar:
    for n in g.nodes:
      if n in [d[0] for d in L.decode]: continue
      for c in q.node_calls(n):
        if any(norm(a) == L.msgvar for a in c.args) and not (isinstance(c.func, ast.Attribute) and c.func.attr in ('exception', 'debug', 'error', 'warning', 'warn', 'info', 'join', 'split')) \
           and call_name(c) not in ('str', 'type', 'repr', '_error_handler'):
          L.deliver.append((n, c))
  # ADVANCE
  L.advance = []
  for n in g.nodes:
    for c in q.node_calls(n):
      if call_name(c) == 'consume_receive_buf': L.advance.append((n, 'consume', c.args[0] if c.args else None))
    if L.cur and isinstance(n.ast, (ast.Assign, ast.AugAssign)) and n.kind == 'stmt':
      tg = n.ast.targets[0] if isinstance(n.ast, ast.Assign) else n.ast.target
      if norm(tg) == L.cur and n in L.body:
        L.advance.append((n, 'store', n.ast.value))
  return L

def _wlen_expr (v):
  """BUF[a] << 8 | BUF[b]  -> (BUF, a, b)"""
  if isinstance(v, ast.BinOp) and isinstance(v.op, ast.BitOr):
    l, r = v.left, v.right
    if isinstance(l, ast.BinOp) and isinstance(l.op, ast.LShift) and isinstance(l.right, ast.Constant) and l.right.value == 8 \
       and isinstance(l.left, ast.Subscript) and isinstance(r, ast.Subscript) and norm(l.left.value) == norm(r.value) \
       and not isinstance(l.left.slice, ast.Slice):
      return (l.left.value, l.left.slice, r.slice)
  # int.from_bytes(BUF[a:a+2], 'big')  -> (BUF, a, a+1): the same two bytes, most significant first
  if isinstance(v, ast.Call) and isinstance(v.func, ast.Attribute) and v.func.attr == 'from_bytes' and norm(v.func.value) == 'int' and v.args and isinstance(v.args[0], ast.Subscript) \
     and isinstance(v.args[0].slice, ast.Slice) and v.args[0].slice.lower is not None and v.args[0].slice.upper is not None and v.args[0].slice.step is None:
    order = v.args[1] if len(v.args) > 1 else next((k_.value for k_ in v.keywords if k_.arg == 'byteorder'), None)
    signed = next((k_.value for k_ in v.keywords if k_.arg == 'signed'), None)
    lo, hi = v.args[0].slice.lower, v.args[0].slice.upper
    a = q.lin_terms(lo); b = q.lin_terms(hi)
    if isinstance(order, ast.Constant) and order.value == 'big' and (signed is None or (isinstance(signed, ast.Constant) and signed.value is False)) and a is not None and b is not None and a[0] == b[0] and b[1] - a[1] == 2:
      second = ast.BinOp(left=lo, op=ast.Add(), right=ast.Constant(value=1))
      if isinstance(lo, ast.BinOp) and isinstance(lo.op, ast.Add) and isinstance(lo.right, ast.Constant):
        second = ast.BinOp(left=lo.left, op=ast.Add(), right=ast.Constant(value=lo.right.value + 1))
      elif isinstance(lo, ast.Constant): second = ast.Constant(value=lo.value + 1)
      return (v.args[0].value, lo, second)
  return None

def avail_lower_bound (L, node):
  """largest k such that dominating guards prove len(BUF) - CUR >= k at node"""
  g = L.g
  best = 0
  for l, o, r, b in q.guard_facts(g, node):
    if r is None: continue
    for (a, op, c) in ((l, o, r), (r, q.flip(o), l)):
      if op is None: continue
      k = q.try_int(c)
      if k is None: continue
      if _is_avail(L, a):
        if op == '>=': best = max(best, k)
        elif op == '>': best = max(best, k + 1)
  # the same bound written another way round (`CUR + 8 <= len(BUF)`): linear form len(BUF) - CUR - k >= 0
  al = _aliases(L)
  tgt = {('len(%s)' % L.buf): 1}
  if L.cur: tgt[L.cur] = -1
  for l, o, r, b in q.guard_facts(g, node):
    if r is None: continue
    ff = q.fact_as_ge0(l, o, r, al)
    if ff is not None and ff[0] == tgt: best = max(best, -ff[1])
  return best

def _is_avail (L, e):
  """e denotes len(BUF) - CUR"""
  t = norm(e)
  lens = ['len(%s)' % L.buf] + ([L.lenv] if L.lenv else [])
  if L.cur is None: return t in lens
  return any(t == '%s - %s' % (x, L.cur) for x in lens)

def _aliases (L):
  al = {}
  if L.lenv: al[L.lenv] = 'len(%s)' % L.buf
  return al

def avail_ge_wlen (L, node):
  """do dominating guards prove len(BUF) - CUR >= WLEN at node?"""
  # linear form: any fact equivalent to  len(BUF) - CUR - WLEN >= 0  (e.g. `CUR + WLEN <= len(BUF)`)
  al = _aliases(L)
  tgt = {('len(%s)' % L.buf): 1, L.wlen: -1}
  if L.cur: tgt[L.cur] = -1
  for l, o, r, b in q.guard_facts(L.g, node):
    if r is None: continue
    if q.implies_ge0(q.fact_as_ge0(l, o, r, al), (tgt, 0)): return True
  for l, o, r, b in q.guard_facts(L.g, node):
    if r is None: continue
    for (a, op, c) in ((l, o, r), (r, q.flip(o), l)):
      if op is None: continue
      if _is_avail(L, a) and norm(c) == L.wlen and op in ('>=',): return True
  return False

def avail_ge_wlen_paths (repo, func, L, node, limit=600):
  """path-sensitive version of avail_ge_wlen: on every feasible path (constant propagation prunes correlated flags such as
  `problem is None`) from the loop head to `node`, some branch taken proves len(BUF) - CUR >= WLEN.
  -> (True, None) | (False, offending path) | (None, None) when the enumeration was cut off"""
  al = _aliases(L)
  tgt = {('len(%s)' % L.buf): 1, L.wlen: -1}
  if L.cur: tgt[L.cur] = -1
  n_paths = 0
  try:
    for p_, e_ in q.paths_under(repo, func.module, L.g, q.Env(), L.head, [node, L.head, L.after, L.g.exit, L.g.raise_exit], func.cls, limit=limit, track_start=True):
      if not p_ or p_[-1] is not node: continue
      n_paths += 1
      ok = False
      for b in p_:
        if b.kind != 'branch' or isinstance(b.label[0], (ast.For, ast.AsyncFor)): continue
        for (l, o, r) in q.facts_of(b.label[0], b.label[1]):
          if r is None: continue
          if q.implies_ge0(q.fact_as_ge0(l, o, r, al), (tgt, 0)): ok = True
          for (a, op, c) in ((l, o, r), (r, q.flip(o), l)):
            if op is not None and _is_avail(L, a) and norm(c) == L.wlen and op in ('>=',): ok = True
      if not ok: return False, [x.line for x in p_ if getattr(x, 'line', None)]
  except Exception:
    return None, None
  if n_paths == 0 or n_paths >= limit: return None, None
  return True, None

def wlen_lower_bound_on_path (L, path):
  """lower bound on WLEN from the branch nodes of an explicit path"""
  best = None
  for n in path:
    if n.kind != 'branch' or isinstance(n.label[0], (ast.For, ast.AsyncFor)): continue
    for (l, o, r) in q.facts_of(n.label[0], n.label[1]):
      if r is None: continue
      for (a, op, c) in ((l, o, r), (r, q.flip(o), l)):
        if op is None or norm(a) != L.wlen: continue
        k = q.try_int(c)
        if k is None: continue
        if op == '>=': best = k if best is None else max(best, k)
        elif op == '>': best = k + 1 if best is None else max(best, k + 1)
  return best

def return_summary (repo, func, env_for_args):
  """abstract return value of `func` under an environment: set of
  {'False','True','None','other'} over the reachable returns / fall-off"""
  g = q.cfg_of(func)
  r = q.reach_under(repo, func.module, g, env_for_args, func.cls, exc=False)
  out = set()
  for n in r:
    if n.kind == 'return':
      v = n.ast.value
      if v is None or (isinstance(v, ast.Constant) and v.value is None): out.add('None')
      elif isinstance(v, ast.Constant) and v.value is False: out.add('False')
      elif isinstance(v, ast.Constant) and v.value is True: out.add('True')
      else: out.add('other')
  # falling off the end
  rets = [n for n in g.nodes if n.kind in ('return', 'raise_stmt')]
  for p, l in g.exit.pred:
    if p in r and p.kind != 'return' and l != 'exc': out.add('None')
  return out

def field_offsets (fmt):
  """[(offset, size)] of each value-producing field of a struct format"""
  import re
  order = fmt[0] if fmt and fmt[0] in '@=<>!' else ''
  body = fmt[len(order):]
  out = []; pos = 0
  for cnt, code in re.findall(r'(\d*)([a-zA-Z?])', body):
    n = int(cnt) if cnt else 1
    if code in 'sp':
      sz = struct.calcsize(order + '%d%s' % (n, code)); out.append((pos, sz)); pos += sz; continue
    one = struct.calcsize(order + code)
    for i in range(n):
      if code != 'x': out.append((pos, one))
      pos += one
  return out


def advance_tied (L, g, node, new):
  """does a fact that holds at `node` say new == cursor + wire length (in any arrangement)?"""
  from . import q as _q
  for l, o, r, b in _q.guard_facts(g, node):
    if r is None or o != '==': continue
    a = _q.lin_terms(l); c = _q.lin_terms(r)
    if a is None or c is None: continue
    d = dict(a[0])
    for k_, v_ in c[0].items():
      d[k_] = d.get(k_, 0) - v_
      if d[k_] == 0: del d[k_]
    if a[1] - c[1] != 0: continue
    for sgn in (1, -1):
      dd = dict((k_, sgn * v_) for k_, v_ in d.items())
      if dd == {new: 1, L.cur: -1, L.wlen: -1}: return True
  return False


def buffer_length_uses (repo, modnames=('openflow.libopenflow_01', 'openflow.nicira')):
  """Decoders are handed the connection's whole receive buffer, which may hold further messages behind the one being decoded.
  The buffer's own length may therefore *guard* a read (a comparison), but never size one: [(func, node, text)] for every use
  of len(<buffer parameter>) - directly or through a local computed from it - outside a comparison, in the unpack / unpack_new /
  _unpack_body methods of the codec modules.  Also returns the number of decoders scanned."""
  out = []; n = 0
  for mn in modnames:
    try: m = repo.mod(mn)
    except Exception: continue
    for c in m.classes.values():
      for f in c.methods.values():
        if f.name not in ('unpack', 'unpack_new', '_unpack_body', '_unpack_header'): continue
        ps = [p for p in f.params if p in ('raw', 'data', 'b', 'buf', 'packed', 'binaryString')]
        if not ps: continue
        n += 1
        buf = ps[0]
        parents = {}
        for x in ast.walk(f.node):
          for ch in ast.iter_child_nodes(x): parents[ch] = x
        def in_compare (x):
          while x in parents:
            x = parents[x]
            if isinstance(x, ast.Compare): return True
            if isinstance(x, ast.stmt): return False
          return False
        def is_len (x): return isinstance(x, ast.Call) and call_name(x) == 'len' and len(x.args) == 1 and isinstance(x.args[0], ast.Name) and x.args[0].id == buf
        tainted = set()
        for st in ast.walk(f.node):
          if isinstance(st, ast.Assign) and len(st.targets) == 1 and isinstance(st.targets[0], ast.Name) and any(is_len(y) for y in ast.walk(st.value)):
            tainted.add(st.targets[0].id)
        for x in ast.walk(f.node):
          if is_len(x) and not in_compare(x):
            st = x
            while st in parents and not isinstance(st, ast.stmt): st = parents[st]
            if isinstance(st, ast.Assign) and len(st.targets) == 1 and isinstance(st.targets[0], ast.Name) and st.targets[0].id in tainted: continue
            out.append((f, x, norm(st)[:70]))
          if isinstance(x, ast.Name) and x.id in tainted and isinstance(x.ctx, ast.Load) and not in_compare(x):
            st = x
            while st in parents and not isinstance(st, ast.stmt): st = parents[st]
            out.append((f, x, norm(st)[:70]))
  return out, n
