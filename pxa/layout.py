"""Codec byte-layout extraction (R-LAYOUT / R-LENFIELD).

Abstractly interprets the restricted code shape of the repository's codec
methods into a *byte layout*: a list of Items
    Item(kind, width, name, code, src)
kind in
    int   a struct integer code (code = the format character)
    pad   padding / skipped bytes
    raw   fixed-width raw bytes (struct 's', .toRaw(), _readether, _readip ...)
    zs    zero padded string of fixed width
    hdr   the 8 byte ofp_header
    nest  another codec object (width = its static length if known)
    var   variable-length bytes
    list  list of codec objects
    len   an int slot fed by a length expression (len(self), 8 + len(..))
width None = not statically known.
"""
import ast, struct, re
from . import q
from .model import Cls, Func, call_name, norm, walk_no_nested, calls_in, AnalysisError

class Item(object):
  __slots__ = ('kind', 'width', 'name', 'code', 'src', 'expr')
  def __init__ (self, kind, width, name, code=None, src=None, expr=None):
    self.kind = kind; self.width = width; self.name = name; self.code = code; self.src = src; self.expr = expr
  def __repr__ (self):
    return "%s%s:%s%s" % (self.kind, ('(%s)' % self.code) if self.code else '', self.name, ('/%s' % self.width) if self.width is not None else '')
  def key (self): return (self.kind, self.width, self.name)

class Unknown(Exception): pass

PADS = {'_PAD': 1, '_PAD2': 2, '_PAD3': 3, '_PAD4': 4, '_PAD6': 6}

def fmt_fields (fmt):
  """[(code, width, count_for_s)] one entry per produced / consumed value; 'x' pads included"""
  order = fmt[0] if fmt and fmt[0] in '@=<>!' else ''
  out = []
  for cnt, code in re.findall(r'(\d*)([a-zA-Z?])', fmt[len(order):]):
    n = int(cnt) if cnt else 1
    if code in 'sp': out.append((code, n)); continue
    w = struct.calcsize((order or '!') + code)
    if code == 'x': out.append(('x', w * n)); continue
    for i in range(n): out.append((code, w))
  return out

def field_name (e):
  """canonical field name for an expression feeding / receiving a slot"""
  if isinstance(e, ast.Attribute) and isinstance(e.value, ast.Name) and e.value.id == 'self': return e.attr.lstrip('_')
  if isinstance(e, ast.Attribute): return field_name(e.value) if e.attr in ('value',) else (field_name(e.value) if not isinstance(e.value, ast.Name) else e.attr)
  if isinstance(e, ast.Name): return '$' + e.id
  if isinstance(e, ast.Constant): return '#%r' % (e.value,)
  if isinstance(e, ast.BoolOp) and isinstance(e.op, ast.Or): return field_name(e.values[0])
  if isinstance(e, ast.IfExp): return field_name(e.body)
  if isinstance(e, ast.Call):
    if call_name(e) == 'len' and e.args: return '#len(%s)' % norm(e.args[0])
    cands = list(e.args) + ([e.func.value] if isinstance(e.func, ast.Attribute) else [])
    for a in cands:
      r = field_name(a)
      if not r.startswith(('?', '#', '$')): return r
    for a in cands:
      r = field_name(a)
      if not r.startswith('?'): return r
  if isinstance(e, ast.BinOp):
    l = field_name(e.left)
    if not l.startswith(('?', '#')): return l
    return field_name(e.right)
  if isinstance(e, ast.Subscript): return field_name(e.value)
  return '?' + norm(e)[:30]

def is_length_expr (e):
  """len(self) / len(...) + const / a local defined as such"""
  t = norm(e)
  return 'len(' in t

class Extractor(object):
  def __init__ (self, repo, cls):
    self.repo = repo; self.cls = cls; self.module = cls.module
    self.notes = []
  # ---------------------------------------------------------------- helpers
  def const (self, e):
    v = self.repo.try_const(self.module, e, self.cls)
    return v
  def static_len_of (self, clsname):
    r = self.module.lookup(clsname)
    if isinstance(r, Cls): return static_len(self.repo, r)
    return None
  def field_class (self, fname):
    """class of self.<fname> from __init__ assignments (self.match = ofp_match())"""
    for c in self.cls.mro():
      init = c.methods.get('__init__')
      if init is None: continue
      for t, v, st, k in q.stores_in(init.node):
        if isinstance(t, ast.Attribute) and t.attr.lstrip('_') == fname and norm(t.value) == 'self' and isinstance(v, ast.Call) and isinstance(v.func, ast.Name):
          r = self.module.lookup(v.func.id)
          if isinstance(r, Cls): return r
    return None
  # ---------------------------------------------------------------- pack side
  def pack_expr (self, e, locals_):
    """Items produced by a bytes-valued expression"""
    if isinstance(e, ast.Constant):
      if isinstance(e.value, bytes):
        if len(e.value) == 0: return []
        return [Item('pad' if set(e.value) <= {0} else 'raw', len(e.value), 'pad' if set(e.value) <= {0} else '#bytes', src=e)]
      if isinstance(e.value, str): return [Item('str!', len(e.value), '#str', src=e)]
    if isinstance(e, ast.Name):
      if e.id in PADS: return [Item('pad', PADS[e.id], 'pad', src=e)]
      v = self.const(e)
      if isinstance(v, bytes): return [Item('pad' if set(v) <= {0} else 'raw', len(v), 'pad' if set(v) <= {0} else '$' + e.id, src=e)] if v else []
      if e.id in locals_:
        return self.pack_expr(locals_[e.id], dict((k, v) for k, v in locals_.items() if k != e.id))
      return [Item('var', None, '$' + e.id, src=e)]
    if isinstance(e, ast.BinOp) and isinstance(e.op, ast.Add):
      return self.pack_expr(e.left, locals_) + self.pack_expr(e.right, locals_)
    if isinstance(e, ast.BinOp) and isinstance(e.op, ast.Mult):
      for a, b in ((e.left, e.right), (e.right, e.left)):
        base = self.pack_expr(a, locals_) if isinstance(a, (ast.Name, ast.Constant)) else None
        n = self.const(b)
        if base and len(base) == 1 and base[0].width is not None:
          if isinstance(n, int): return [Item(base[0].kind, base[0].width * n, base[0].name, src=e)]
          return [Item('pad' if base[0].kind == 'pad' else 'var', None, 'pad' if base[0].kind == 'pad' else field_name(b), src=e)]
    if isinstance(e, ast.IfExp):
      return self.alt(self.pack_expr(e.body, locals_), self.pack_expr(e.orelse, locals_), e)
    if isinstance(e, ast.Attribute):
      if e.attr in PADS and norm(e.value) != 'self': return [Item('pad', PADS[e.attr], 'pad', src=e)]
      if norm(e.value) == 'self': return [Item('var', None, e.attr.lstrip('_'), src=e)]
      if e.attr in ('raw',): return [Item('raw', None, field_name(e.value), src=e)]
      return [Item('var', None, field_name(e), src=e)]
    if isinstance(e, ast.Call):
      f = e.func; cn = call_name(e)
      if cn == 'pack' and isinstance(f, ast.Attribute) and norm(f.value) == 'struct':
        return self.struct_pack(e)
      if cn == 'pack' and isinstance(f, ast.Attribute):
        st = self._super_target(e, 'pack')
        if st is not None:
          sub = Extractor(self.repo, st.cls).pack_layout(st)
          if sub is not None: return sub
        base = f.value
        if (isinstance(base, ast.Name) and base.id == 'ofp_header') or (isinstance(base, ast.Attribute) and base.attr == 'ofp_header'):
          return [Item('hdr', 8, 'header', src=e)]
        if isinstance(base, ast.Attribute) and e.args and norm(e.args[0]) == 'self':
          r = self.module.resolve_expr(base)
          if isinstance(r, Cls):
            sub = Extractor(self.repo, r).pack_layout()
            if sub is not None: return sub
        if isinstance(base, ast.Name):
          r = self.module.lookup(base.id)
          if isinstance(r, Cls) and e.args and norm(e.args[0]) == 'self':
            # Parent.pack(self): inline parent's layout
            sub = Extractor(self.repo, r).pack_layout()
            if sub is not None: return sub
        nm = field_name(base)
        c = self.field_class(nm)
        return [Item('nest', static_len(self.repo, c) if c else None, nm, code=c.name if c else None, src=e)]
      if cn == '_packzs' and len(e.args) == 2:
        n = self.const(e.args[1])
        return [Item('zs', n if isinstance(n, int) else None, field_name(e.args[0]), src=e)]
      if cn == 'toRaw': return [Item('raw', 6 if 'EMPTY_ETH' in norm(f.value) or True else None, field_name(f.value), src=e)] if False else [Item('raw', self.raw_width(f.value), field_name(f.value), src=e)]
      if cn in ('_pack_body',): return [Item('var', None, 'body', src=e)]
      if cn == 'join' and isinstance(f, ast.Attribute) and e.args:
        a = e.args[0]
        if isinstance(a, ast.Name) and a.id == getattr(self, '_lacc', None): return []      # pieces already accumulated statement by statement
        if isinstance(a, (ast.Tuple, ast.List)):
          out = []
          for x in a.elts: out += self.pack_expr(x, locals_)
          return out
        if isinstance(a, (ast.GeneratorExp, ast.ListComp)):
          return [Item('list', None, field_name(a.generators[0].iter), src=e)]
      if cn == 'ljust' and isinstance(f, ast.Attribute) and e.args:
        n = self.const(e.args[0])
        fill = e.args[1] if len(e.args) > 1 else None
        kind = 'zs'
        if fill is not None and isinstance(fill, ast.Constant) and isinstance(fill.value, str): kind = 'str!'
        return [Item(kind, n if isinstance(n, int) else None, field_name(f.value), src=e)]
      if cn == 'bytes' and e.args: return self.pack_expr(e.args[0], locals_)
      if cn == 'encode' and isinstance(f, ast.Attribute): return [Item('var', None, field_name(f.value), src=e)]
      if isinstance(f, ast.Attribute) and norm(f.value) == 'self':
        m = self.cls.find_method(f.attr)
        if m is not None and f.attr.startswith('_pack'):
          sub = self.pack_layout(m)
          if sub is not None: return sub
      return [Item('var', None, field_name(e), src=e)]
    raise Unknown(norm(e)[:60])
  def raw_width (self, base):
    t = norm(base)
    if 'ETH' in t.upper() or 'dl_' in t or 'hw_addr' in t or 'eth' in t: return 6
    return None
  def struct_pack (self, e):
    fmt = self.const(e.args[0])
    if not isinstance(fmt, str): raise Unknown("non-constant format %s" % norm(e.args[0]))
    fields = fmt_fields(fmt)
    args = list(e.args[1:])
    out = []; ai = 0
    for code, w in fields:
      if code == 'x': out.append(Item('pad', w, 'pad', code='x', src=e)); continue
      if ai >= len(args): raise Unknown("format %r has more fields than arguments" % fmt)
      a = args[ai]; ai += 1
      nm = field_name(a)
      if code in 'sp':
        out.append(Item('raw', w, nm, code=code, src=e, expr=a)); continue
      if isinstance(a, ast.Constant) and a.value == 0: out.append(Item('pad', w, 'pad', code=code, src=e, expr=a)); continue
      if is_length_expr(a): out.append(Item('len', w, nm, code=code, src=e, expr=a)); continue
      out.append(Item('int', w, nm, code=code, src=e, expr=a))
    if ai != len(args) and not any(isinstance(a, ast.Starred) for a in args):
      raise Unknown("format %r consumes %d values but %d are given" % (fmt, ai, len(args)))
    return out
  def alt (self, a, b, src):
    # alternatives sharing a prefix (e.g. `if data: return join(h, x, data) else: return join(h, x)`)
    k = 0
    while k < len(a) and k < len(b) and a[k].key() == b[k].key(): k += 1
    if k and (k == len(a) or k == len(b)):
      rest = a[k:] or b[k:]
      return a[:k] + [Item(x.kind if x.kind.startswith('opt:') else 'opt:' + x.kind, x.width, x.name, x.code, x.src, x.expr) for x in rest]
    if k:
      return a[:k] + self.alt(a[k:], b[k:], src)
    wa = sum(x.width for x in a) if all(x.width is not None for x in a) else None
    wb = sum(x.width for x in b) if all(x.width is not None for x in b) else None
    names = [x.name for x in a + b if not x.name.startswith(('$', '#', '?')) and x.name != 'pad']
    nm = names[0] if names else (a + b)[0].name if (a + b) else '?'
    if wa is not None and wb is not None:
      if wa != wb:
        self.notes.append(('alt-width', nm, wa, wb, src))
        return [Item('raw', None, nm, src=src)]
      return [Item('raw', wa, nm, src=src)] if wa else []
    w = wa if wa is not None else wb
    # one alternative is `self.x` given as raw bytes (width unknown) and the other a typed address of known width
    return [Item('raw', w, nm, src=src)]
  def _super_target (self, call, name):
    """method `name` of the class after self.cls in the MRO when call is super(...).name(...)"""
    f = call.func
    if isinstance(f, ast.Attribute) and f.attr == name and isinstance(f.value, ast.Call) and call_name(f.value) == 'super':
      for k in self.cls.mro()[1:]:
        if name in k.methods: return k.methods[name]
    return None
  def pack_layout (self, method=None):
    m = method or self.cls.find_method('pack')
    if m is None: return None
    if m.cls is not None and m.cls.name == 'ofp_header' and m.name == 'pack' and self.cls.name != 'ofp_header':
      return [Item('hdr', 8, 'header', src=m.node)]
    acc = None
    augs = []
    for t, v, st, k in q.stores_in(m.node, nested=False):
      if isinstance(t, ast.Name) and k == 'augassign' and isinstance(st.op, ast.Add) and t.id not in augs: augs.append(t.id)
    # the accumulator is the grown name that is returned as it is; a name grown with += but then used as one piece of a larger
    # expression (return b''.join((header, fixed, data))) is a local byte string: its pieces are spliced in where it is used
    returned = [r.value.id for r in q.returns_of(m.node) if r.value is not None and isinstance(r.value, ast.Name)]
    for nm_ in augs:
      if nm_ in returned: acc = nm_; break
    if acc is None and augs and not any(r.value is not None and not isinstance(r.value, ast.Name) for r in q.returns_of(m.node)): acc = augs[0]
    sub_accs = set(a_ for a_ in augs if a_ != acc)
    # a list of pieces joined at the end: parts = [a, b]; parts.append(c); return b''.join(parts)
    lacc = None
    joined = set(norm(c.args[0]) for c in calls_in(m.node) if call_name(c) == 'join' and c.args and isinstance(c.args[0], ast.Name))
    for t, v, st, k in q.stores_in(m.node, nested=False):
      if isinstance(t, ast.Name) and k == 'assign' and isinstance(v, ast.List) and t.id in joined: lacc = t.id; break
    self._lacc = lacc
    L = []
    locals_ = {}
    def stmts (body):
      for s in body:
        if lacc and isinstance(s, ast.Assign) and len(s.targets) == 1 and isinstance(s.targets[0], ast.Name) and s.targets[0].id == lacc and isinstance(s.value, ast.List):
          del L[:]
          for x in s.value.elts: L.extend(self.pack_expr(x, locals_))
        elif lacc and isinstance(s, ast.Expr) and isinstance(s.value, ast.Call) and isinstance(s.value.func, ast.Attribute) and norm(s.value.func.value) == lacc and s.value.func.attr in ('append', 'extend') and len(s.value.args) == 1:
          a_ = s.value.args[0]
          if s.value.func.attr == 'append': L.extend(self.pack_expr(a_, locals_))
          elif isinstance(a_, (ast.List, ast.Tuple)):
            for x in a_.elts: L.extend(self.pack_expr(x, locals_))
          elif isinstance(a_, (ast.GeneratorExp, ast.ListComp)): L.append(Item('list', None, field_name(a_.generators[0].iter), src=s))
          else: raise Unknown("extend with %s" % norm(a_)[:40])
        elif lacc and isinstance(s, ast.AugAssign) and isinstance(s.target, ast.Name) and s.target.id == lacc and isinstance(s.value, (ast.List, ast.Tuple)):
          for x in s.value.elts: L.extend(self.pack_expr(x, locals_))
        elif isinstance(s, ast.AugAssign) and isinstance(s.target, ast.Name) and s.target.id == acc:
          L.extend(self.pack_expr(s.value, locals_))
        elif isinstance(s, ast.AugAssign) and isinstance(s.target, ast.Name) and s.target.id in sub_accs and isinstance(s.op, ast.Add) and s.target.id in locals_:
          locals_[s.target.id] = ast.BinOp(left=locals_[s.target.id], op=ast.Add(), right=s.value)
        elif isinstance(s, ast.Assign) and len(s.targets) == 1 and isinstance(s.targets[0], ast.Name) and s.targets[0].id == acc:
          del L[:]; L.extend(self.pack_expr(s.value, locals_))
        elif isinstance(s, ast.Assign) and len(s.targets) == 1 and isinstance(s.targets[0], ast.Name):
          locals_[s.targets[0].id] = s.value
        elif isinstance(s, (ast.For,)):
          k = len(L); stmts(s.body); inner = L[k:]; del L[k:]
          if inner: L.append(Item('list', None, field_name(s.iter), src=s))
        elif isinstance(s, ast.If):
          k = len(L); stmts(s.body); A = L[k:]; del L[k:]
          stmts(s.orelse); B = L[k:]; del L[k:]
          if A and B: L.extend(self.alt(A, B, s))
          elif A or B:
            only = A or B
            for x in only: L.append(Item('opt:' + x.kind, x.width, x.name, x.code, x.src, x.expr))
        elif isinstance(s, ast.Return):
          if s.value is None: continue
          if isinstance(s.value, ast.Name) and s.value.id == acc: continue
          L.extend(self.pack_expr(s.value, locals_))
        elif isinstance(s, (ast.Assert, ast.Expr, ast.FunctionDef, ast.Raise, ast.Pass, ast.Assign, ast.AugAssign, ast.Import, ast.ImportFrom)):
          continue
        elif isinstance(s, ast.Try):
          stmts(s.body)
        elif isinstance(s, ast.With):
          stmts(s.body)
        else:
          raise Unknown("statement %s" % type(s).__name__)
    stmts(m.node.body)
    return L
  # ---------------------------------------------------------------- unpack side
  def unpack_layout (self, method=None):
    m = method or self.cls.find_method('unpack')
    if m is None: return None
    if m.cls is not None and m.cls.name == 'ofp_header' and m.name in ('unpack', '_unpack_header') and self.cls.name != 'ofp_header':
      return [Item('hdr', 8, 'header', src=m.node)]
    L = []
    def second (tgt):
      return tgt.elts[1] if isinstance(tgt, ast.Tuple) and len(tgt.elts) == 2 else tgt
    def names_of (t):
      if isinstance(t, (ast.Tuple, ast.List)): return [field_name(x) for x in t.elts], list(t.elts)
      return [field_name(t)], [t]
    pending = {}
    def emit_fmt (fmt, ns, s):
      vi = 0
      for code, w in fmt_fields(fmt):
        if code == 'x': L.append(Item('pad', w, 'pad', code='x', src=s)); continue
        n = ns[vi] if vi < len(ns) else '?missing'; vi += 1
        if n.lstrip('$_') in ('pad', 'pad1', 'pad2', 'pad3', '', 'padding') or n in ('$_',): L.append(Item('pad', w, 'pad', code=code, src=s))
        elif code in 'sp': L.append(Item('raw', w, n, code=code, src=s))
        elif n.lstrip('$') in ('length', 'len', 'l', '_length'): L.append(Item('len', w, n, code=code, src=s))
        else: L.append(Item('int', w, n, code=code, src=s))
      if vi != len(ns): raise Unknown("format %r yields %d values for %d targets" % (fmt, vi, len(ns)))
    def stmts (body):
      for s in body:
        # the standard-library form: fields = struct.unpack_from(FMT, raw, offset) [; a, b, c = fields] (a precompiled Struct is
        # rewritten to this by the normaliser); the cursor arithmetic that goes with it is not part of the layout
        if isinstance(s, ast.Assign) and isinstance(s.value, ast.Call) and call_name(s.value) == 'unpack_from' and isinstance(s.value.func, ast.Attribute) and norm(s.value.func.value) == 'struct' and s.value.args:
          fmt = self.const(s.value.args[0])
          if not isinstance(fmt, str): raise Unknown("non-constant format")
          tgt = s.targets[0]
          if isinstance(tgt, (ast.Tuple, ast.List)): emit_fmt(fmt, names_of(tgt)[0], s)
          elif isinstance(tgt, ast.Name): pending[tgt.id] = (fmt, s)
          else: raise Unknown("unpack_from into %s" % norm(tgt))
          continue
        if isinstance(s, ast.Assign) and isinstance(s.value, ast.Name) and s.value.id in pending and isinstance(s.targets[0], (ast.Tuple, ast.List)):
          fmt, s0 = pending.pop(s.value.id); emit_fmt(fmt, names_of(s.targets[0])[0], s0); continue
        if isinstance(s, ast.Assign) and isinstance(s.value, ast.Call):
          c = s.value; cn = call_name(c); tgt = s.targets[0]
          if cn == '_unpack' and c.args:
            fmt = self.const(c.args[0])
            if not isinstance(fmt, str): raise Unknown("non-constant format")
            ns, es = names_of(second(tgt))
            fields = [f for f in fmt_fields(fmt)]
            vi = 0
            for code, w in fields:
              if code == 'x': L.append(Item('pad', w, 'pad', code='x', src=s)); continue
              n = ns[vi] if vi < len(ns) else '?missing'; vi += 1
              if n.lstrip('$_') in ('pad', 'pad1', 'pad2', 'pad3', '', 'padding') or n in ('$_',): L.append(Item('pad', w, 'pad', code=code, src=s))
              elif code in 'sp': L.append(Item('raw', w, n, code=code, src=s))
              elif n.lstrip('$') in ('length', 'len', 'l', '_length'): L.append(Item('len', w, n, code=code, src=s))
              else: L.append(Item('int', w, n, code=code, src=s))
            if vi != len(ns): raise Unknown("format %r yields %d values for %d targets" % (fmt, vi, len(ns)))
          elif cn == '_skip' and len(c.args) == 3:
            n = self.const(c.args[2]); L.append(Item('pad', n if isinstance(n, int) else None, 'pad', src=s))
          elif cn == '_unpad' and len(c.args) == 3:
            n = self.const(c.args[2]); L.append(Item('pad', n if isinstance(n, int) else None, 'pad', src=s))
          elif cn == '_readether': L.append(Item('raw', 6, field_name(second(tgt)), src=s))
          elif cn == '_readip': L.append(Item('raw', 4, field_name(second(tgt)), src=s))
          elif cn == '_readzs' and len(c.args) == 3:
            n = self.const(c.args[2]); L.append(Item('zs', n if isinstance(n, int) else None, field_name(second(tgt)), src=s))
          elif cn == '_read' and len(c.args) == 3:
            n = self.const(c.args[2]); L.append(Item('raw' if isinstance(n, int) else 'var', n if isinstance(n, int) else None, field_name(second(tgt)), src=s))
          elif cn == '_unpack_header': L.append(Item('hdr', 8, 'header', src=s))
          elif cn in ('_unpack_actions', '_unpack_queue_props'): L.append(Item('list', None, field_name(second(tgt)), src=s))
          elif cn == '_unpack_body': L.append(Item('var', None, 'body', src=s))
          elif cn == 'unpack' and isinstance(c.func, ast.Attribute):
            base = c.func.value
            if isinstance(base, ast.Name):
              r = self.module.lookup(base.id)
              if isinstance(r, Cls) and c.args and norm(c.args[0]) == 'self':
                sub = Extractor(self.repo, r).unpack_layout()
                if sub is not None: L.extend(sub); continue
            nm = field_name(base)
            cl = self.field_class(nm)
            L.append(Item('nest', static_len(self.repo, cl) if cl else None, nm, code=cl.name if cl else None, src=s))
          elif cn == 'unpack_new' and isinstance(c.func, ast.Attribute):
            L.append(Item('nest', None, field_name(second(tgt)), src=s))
        elif isinstance(s, (ast.Return, ast.Expr)) and isinstance(s.value, ast.Call) and self._super_target(s.value, 'unpack') is not None:
          st = self._super_target(s.value, 'unpack')
          sub = Extractor(self.repo, st.cls).unpack_layout(st)
          if sub is not None: L.extend(sub)
        elif isinstance(s, (ast.For, ast.While)):
          tg = [n for n in ast.walk(s) if isinstance(n, ast.Call) and call_name(n) == 'append' and isinstance(n.func, ast.Attribute)]
          if tg: L.append(Item('list', None, field_name(tg[0].func.value), src=s))
        elif isinstance(s, ast.If):
          k = len(L); stmts(s.body); A = L[k:]; del L[k:]
          stmts(s.orelse); B = L[k:]; del L[k:]
          if A and B:
            wa = sum(x.width for x in A) if all(x.width is not None for x in A) else None
            wb = sum(x.width for x in B) if all(x.width is not None for x in B) else None
            if A and B and len(A) == len(B) and all(a.key() == b.key() for a, b in zip(A, B)): L.extend(A)
            else: L.append(Item('var' if wa != wb or wa is None else 'raw', wa if wa == wb else None, (A + B)[0].name, src=s))
          elif A or B:
            for x in (A or B): L.append(Item('opt:' + x.kind, x.width, x.name, x.code, x.src))
        elif isinstance(s, ast.Try): stmts(s.body)
    stmts(m.node.body)
    # an int read into a local that is never used afterwards is padding
    loads = set(x.id for x in ast.walk(m.node) if isinstance(x, ast.Name) and isinstance(x.ctx, ast.Load))
    for it in L:
      if it.kind == 'int' and it.name.startswith('$') and it.name[1:] not in loads: it.kind = 'ign'; it.name = '$ignored'
    return L

def static_len (repo, cls, _depth=0):
  """constant value of cls.__len__ if it returns a constant (or constant sum), else None"""
  if cls is None or _depth > 4: return None
  f = cls.find_method('__len__')
  if f is None: return None
  rets = q.returns_of(f.node)
  if len(rets) != 1: return None
  v = rets[0].value
  k = q.try_int(v)
  if k is not None: return k
  c = repo.try_const(f.module, v, f.cls)
  return c if isinstance(c, int) else None

def len_terms (repo, cls):
  """(constant, [variable term texts]) of __len__'s result, following `l = K; for ..: l += len(i); return l`"""
  f = cls.find_method('__len__')
  if f is None: return None, []
  const = 0; terms = []
  def add (e):
    nonlocal const
    if isinstance(e, ast.BinOp) and isinstance(e.op, ast.Add): add(e.left); add(e.right); return
    k = q.try_int(e)
    if k is None:
      c = repo.try_const(f.module, e, f.cls)
      if isinstance(c, int): k = c
    if k is not None: const += k; return
    if isinstance(e, ast.Call) and call_name(e) == 'len' and e.args and isinstance(e.args[0], (ast.Name, ast.Attribute)):
      if norm(e.args[0]).startswith('self.'):
        fc = Extractor(repo, cls).field_class(norm(e.args[0])[5:].lstrip('_'))
        n = static_len(repo, fc) if fc is not None else None
        if n is not None: const += n; return
      r = f.module.resolve_expr(e.args[0]) if not norm(e.args[0]).startswith('self') else None
      if isinstance(r, Cls):
        n = static_len(repo, r)
        if n is not None: const += n; return
    terms.append(norm(e))
  rets = q.returns_of(f.node)
  if len(rets) != 1: return None, []
  v = rets[0].value
  if isinstance(v, ast.Name):
    for val, st, k in q.reaching_assign(f.node, v.id):
      if k == 'assign' and val is not None: add(val)
      elif k == 'augassign' and isinstance(st.op, ast.Add): add(st.value)
      else: return None, []
  else: add(v)
  return const, terms

def fixed_prefix (items):
  """[(offset, item)] for the leading items of statically known width"""
  out = []; off = 0
  for it in items:
    if it.width is None or it.kind.startswith('opt:'): break
    out.append((off, it)); off += it.width
  return out, off
