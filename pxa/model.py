"""Repository model: parses every module of the tree under analysis and gives
name resolution (imports, star imports, classes, MRO, methods) and a constant
evaluator.  Nothing here imports or executes code of the repository.
"""
import ast, os, struct

class AnalysisError(Exception):
  """Raised when an anchor vanished or the source has a shape the analysis
  does not understand.  Turned into exit status 2 (never a VIOLATION)."""

class Func(object):
  __slots__ = ('node', 'module', 'cls', 'name', 'decorators')
  def __init__ (self, node, module, cls):
    self.node = node; self.module = module; self.cls = cls
    self.name = node.name
    self.decorators = [deco_name(d) for d in node.decorator_list]
  @property
  def qual (self):
    if self.cls is not None:
      return "%s:%s.%s" % (self.module.short, self.cls.name, self.name)
    return "%s:%s" % (self.module.short, self.name)
  @property
  def line (self): return self.node.lineno
  @property
  def is_static (self): return 'staticmethod' in self.decorators
  @property
  def is_classmethod (self): return 'classmethod' in self.decorators
  @property
  def params (self):
    a = self.node.args
    return [x.arg for x in a.posonlyargs + a.args]
  def __repr__ (self): return "<Func %s>" % self.qual

def deco_name (d):
  if isinstance(d, ast.Call): d = d.func
  if isinstance(d, ast.Name): return d.id
  if isinstance(d, ast.Attribute): return d.attr
  return None

class Cls(object):
  def __init__ (self, node, module, outer=None):
    self.node = node; self.module = module; self.name = node.name
    self.outer = outer
    self.methods = {}       # name -> Func   (last definition wins, as Python)
    self.assigns = {}       # name -> ast value (class-level simple assigns)
    self.inner = {}         # nested classes
    for s in node.body:
      if isinstance(s, (ast.FunctionDef, ast.AsyncFunctionDef)):
        self.methods[s.name] = Func(s, module, self)
      elif isinstance(s, ast.Assign):
        for t in s.targets:
          if isinstance(t, ast.Name): self.assigns[t.id] = s.value
      elif isinstance(s, ast.AnnAssign) and isinstance(s.target, ast.Name) and s.value is not None:
        self.assigns[s.target.id] = s.value
      elif isinstance(s, ast.ClassDef):
        self.inner[s.name] = Cls(s, module, self)
    self._mro = None
  @property
  def qual (self): return "%s:%s" % (self.module.short, self.name)
  @property
  def line (self): return self.node.lineno
  def bases (self):
    """resolved base classes (Cls objects); unresolvable ones are dropped
    and recorded in self.unresolved_bases"""
    out = []; self.unresolved_bases = []
    for b in self.node.bases:
      r = self.module.resolve_expr(b)
      if isinstance(r, Cls): out.append(r)
      else: self.unresolved_bases.append(ast.unparse(b))
    return out
  def mro (self):
    if self._mro is None:
      self._mro = [self]       # guard against cycles
      seqs = [b.mro() for b in self.bases()]
      res = [self]
      # simple left-to-right, depth-first with later-duplicate removal (C3-like
      # enough for the repo's diamonds: mixins have disjoint method names)
      for s in seqs:
        for c in s:
          if c in res: res.remove(c)
          res.append(c)
      self._mro = res
    return self._mro
  def find_method (self, name):
    for c in self.mro():
      if name in c.methods: return c.methods[name]
    return None
  def find_assign (self, name):
    for c in self.mro():
      if name in c.assigns: return c, c.assigns[name]
    return None, None
  def decorators (self):
    return self.node.decorator_list
  def __repr__ (self): return "<Cls %s>" % self.qual

class ModRef(object):
  """A name bound to a module (import x.y as z)"""
  def __init__ (self, module): self.module = module

class Module(object):
  def __init__ (self, repo, name, path, src):
    self.repo = repo; self.name = name; self.path = path; self.src = src
    self.tree = ast.parse(src, path)
    if repo.normalize:
      from . import norm
      # another file mentions the name without defining a function of that name itself (a file that has its own `def nm` is
      # taken to mean its own)
      ext = (lambda nm, me=name: any(nm in toks_ and nm not in repo.defs_in.get(rel_, ()) for rel_, toks_ in repo.tokens.items() if rel_ != me))
      extdef = (lambda nm, cls_=None, me=name: repo.subclass_defines(cls_, nm, me) if cls_ else (repo.defcount.get(nm, 0) - (1 if nm in repo.defs_in.get(me, ()) else 0) > 0))
      self.tree = norm.normalize_module(self.tree, name, repo.norm_stats, external=ext, external_def=extdef)
    self.short = name[4:] if name.startswith('pox.') else name
    self.is_pkg = os.path.basename(path) == '__init__.py'
    self.funcs = {}; self.classes = {}; self.assigns = {}
    self.imports = {}       # local name -> ('mod', modname) | ('from', modname, attr)
    self.stars = []         # modules star-imported, in order
    self.order = []         # (name, kind) in binding order, to honour rebinding
    self._exports = None
    self._collect(self.tree.body)
  def rel (self): return os.path.relpath(self.path, self.repo.root)
  def _absmod (self, node):
    if node.level == 0: return node.module
    pkg = self.name.split('.')
    if not self.is_pkg: pkg = pkg[:-1]
    if node.level > 1: pkg = pkg[:-(node.level - 1)]
    return '.'.join(pkg + ([node.module] if node.module else []))
  def _collect (self, body):
    for s in body:
      if isinstance(s, (ast.FunctionDef, ast.AsyncFunctionDef)):
        self.funcs[s.name] = Func(s, self, None); self._bind(s.name, 'func')
      elif isinstance(s, ast.ClassDef):
        self.classes[s.name] = Cls(s, self); self._bind(s.name, 'class')
      elif isinstance(s, ast.Assign):
        for t in s.targets:
          for n in targets_of(t):
            self.assigns[n] = s.value if isinstance(t, ast.Name) else None
            self._bind(n, 'assign')
      elif isinstance(s, ast.AnnAssign) and isinstance(s.target, ast.Name):
        self.assigns[s.target.id] = s.value; self._bind(s.target.id, 'assign')
      elif isinstance(s, ast.Import):
        for a in s.names:
          if a.asname:
            self.imports[a.asname] = ('mod', a.name); self._bind(a.asname, 'import')
          else:
            top = a.name.split('.')[0]
            self.imports[top] = ('mod', top); self._bind(top, 'import')
      elif isinstance(s, ast.ImportFrom):
        m = self._absmod(s)
        for a in s.names:
          if a.name == '*':
            self.stars.append(m); self._bind('*' + m, 'star')
          else:
            self.imports[a.asname or a.name] = ('from', m, a.name)
            self._bind(a.asname or a.name, 'import')
      elif isinstance(s, (ast.If, ast.Try)):
        # conditional imports / definitions at module level
        self._collect(s.body)
        for h in getattr(s, 'handlers', []): self._collect(h.body)
        self._collect(s.orelse)
        self._collect(getattr(s, 'finalbody', []))
      elif isinstance(s, (ast.For, ast.While, ast.With)):
        self._collect(s.body)
  def _bind (self, name, kind):
    self.order.append((name, kind))
  def exports (self):
    """name -> resolved object for every top-level binding (incl. stars)"""
    if self._exports is not None: return self._exports
    self._exports = ex = {}
    for name, kind in self.order:
      if kind == 'star':
        m = self.repo.modules.get(name[1:])
        if m is not None and m is not self:
          sub = m.exports()
          allv = m.assigns.get('__all__')
          names = None
          if isinstance(allv, (ast.List, ast.Tuple)):
            names = [e.value for e in allv.elts if isinstance(e, ast.Constant)]
          for k, v in list(sub.items()):
            if names is not None:
              if k in names: ex[k] = v
            elif not k.startswith('_'): ex[k] = v
      elif kind == 'func': ex[name] = self.funcs[name]
      elif kind == 'class': ex[name] = self.classes[name]
      elif kind == 'assign': ex[name] = ('assign', self, name)
      elif kind == 'import': ex[name] = ('import', self, name)
    return ex
  def lookup (self, name, _depth=0):
    """Resolve a global name of this module to Func | Cls | ModRef |
    ('const', module, astvalue) | None"""
    if _depth > 12: return None
    v = self.exports().get(name)
    if v is None:
      return self.repo.dynamic_global(self, name)
    if isinstance(v, (Func, Cls)): return v
    tag, mod, nm = v
    if tag == 'assign':
      val = mod.assigns.get(nm)
      if isinstance(val, ast.Name) and val.id != nm:
        r = mod.lookup(val.id, _depth + 1)
        if r is not None: return r
      return ('const', mod, val)
    if tag == 'import':
      imp = mod.imports[nm]
      if imp[0] == 'mod':
        m = self.repo.modules.get(imp[1])
        return ModRef(m) if m is not None else None
      _, mname, attr = imp
      pk = self.repo.modules.get(mname)
      if pk is not None:
        r = pk.lookup(attr, _depth + 1) if pk is not mod or attr != nm else None
        if r is not None: return r
      sub = self.repo.modules.get(mname + '.' + attr)
      if sub is not None: return ModRef(sub)
      return None
    return None
  def resolve_expr (self, e, cls=None):
    """Resolve Name / dotted Attribute expression to a repo object"""
    if isinstance(e, ast.Name): return self.lookup(e.id)
    if isinstance(e, ast.Attribute):
      base = self.resolve_expr(e.value, cls)
      return self.repo.getattr_static(base, e.attr)
    if isinstance(e, ast.Call):   # e.g. base class produced by a factory
      return None
    return None

def targets_of (t):
  if isinstance(t, ast.Name): return [t.id]
  if isinstance(t, (ast.Tuple, ast.List)):
    out = []
    for e in t.elts: out += targets_of(e)
    return out
  return []

class Repo(object):
  def __init__ (self, root, subdirs=('pox',), normalize=True):
    self.root = os.path.abspath(root)
    self.normalize = normalize; self.norm_stats = {}
    self.modules = {}
    self.parse_errors = []
    self.dynamic = {}     # module name -> {global name: value}  (see dynnames)
    # identifiers per file: a helper that some *other* file mentions stays a unit of its own when the normaliser inlines it
    import re as _re
    files = []
    for sd in subdirs:
      top = os.path.join(self.root, sd)
      if not os.path.isdir(top): continue
      for dp, dn, fn in os.walk(top):
        dn[:] = sorted(d for d in dn if d != '__pycache__')
        for f in sorted(fn):
          if not f.endswith('.py'): continue
          p = os.path.join(dp, f)
          rel = os.path.relpath(p, self.root)[:-3].replace(os.sep, '.')
          if rel.endswith('.__init__'): rel = rel[:-9]
          try:
            with open(p, encoding='utf-8', errors='replace') as fh: src = fh.read()
          except OSError: continue
          files.append((rel, p, src, set(_re.findall(r'[A-Za-z_][A-Za-z0-9_]*', src)), set(_re.findall(r'\bdef\s+([A-Za-z_][A-Za-z0-9_]*)', src))))
    # N0m: consistently renamed private members get their reference names back (see norm.member_renames) before anything else
    # looks at the sources - identifiers are rewritten in the text, line numbers stay
    self.member_renames = {}
    if normalize:
      from . import norm as _norm
      trees_ = {}
      for rel, p, src, toks, dfs in files:
        try: trees_[rel] = ast.parse(src)
        except SyntaxError: pass
      try: self.member_renames = _norm.member_renames(trees_)
      except Exception: self.member_renames = {}
      if self.member_renames:
        pat_ = _re.compile(r'\b(' + '|'.join(_re.escape(k) for k in sorted(self.member_renames, key=len, reverse=True)) + r')\b')
        files2 = []
        for rel, p, src, toks, dfs in files:
          if toks & set(self.member_renames):
            src = pat_.sub(lambda m_: self.member_renames[m_.group(1)], src)
            toks = set(_re.findall(r'[A-Za-z_][A-Za-z0-9_]*', src)); dfs = set(_re.findall(r'\bdef\s+([A-Za-z_][A-Za-z0-9_]*)', src))
          files2.append((rel, p, src, toks, dfs))
        files = files2
        self.norm_stats['member_renames'] = dict(self.member_renames)
    self.mentions = {}
    self.defcount = {}
    for rel, p, src, toks, dfs in files:
      for t in toks: self.mentions[t] = self.mentions.get(t, 0) + 1
      for t in dfs: self.defcount[t] = self.defcount.get(t, 0) + 1
    self.tokens = dict((rel, toks) for rel, p, src, toks, dfs in files)
    # class hierarchy by simple names over all files (for the normaliser: is a method overridden by some subclass?)
    self.class_index = []      # (file, class name, base names, method names)
    for rel, p, src, toks, dfs in files:
      try: t_ = ast.parse(src)
      except SyntaxError: continue
      for c_ in ast.walk(t_):
        if isinstance(c_, ast.ClassDef):
          bases = set((b.id if isinstance(b, ast.Name) else (b.attr if isinstance(b, ast.Attribute) else '?')) for b in c_.bases)
          self.class_index.append((rel, c_.name, bases, set(x.name for x in c_.body if isinstance(x, (ast.FunctionDef, ast.AsyncFunctionDef)))))
    self.defs_in = dict((rel, dfs) for rel, p, src, toks, dfs in files)
    if True:
      if True:
        for rel, p, src, toks, dfs in files:
          try:
            self.modules[rel] = Module(self, rel, p, src)
          except SyntaxError as ex:
            self.parse_errors.append((p, str(ex)))
  def subclass_defines (self, clsname, meth, own_file=None):
    """does some (transitive) subclass of a class called clsname - in another file - define a method `meth`?  Unknown bases
    ('?') count as possible subclasses"""
    seen = set([clsname]); work = [clsname]
    while work:
      c = work.pop()
      for rel, name, bases, meths in self.class_index:
        if c in bases or '?' in bases and False:
          if rel != own_file and meth in meths: return True
          if name not in seen: seen.add(name); work.append(name)
    return False
  # -- lookups
  def mod (self, name):
    if not name.startswith('pox.') and ('pox.' + name) in self.modules:
      name = 'pox.' + name
    m = self.modules.get(name)
    if m is None: raise AnalysisError("module %s not found" % name)
    return m
  def cls (self, modname, clsname):
    m = self.mod(modname)
    c = m.classes.get(clsname)
    if c is None:
      r = m.lookup(clsname)
      if isinstance(r, Cls): return r
      raise AnalysisError("class %s not found in %s" % (clsname, modname))
    return c
  def func (self, qual):
    """'openflow.of_01:Connection.read' or 'lib.util:dpid_to_str'"""
    modname, _, rest = qual.partition(':')
    parts = rest.split('.')
    m = self.mod(modname)
    if len(parts) == 1:
      f = m.funcs.get(parts[0])
      if f is None: raise AnalysisError("function %s not found" % qual)
      return f
    c = self.cls(modname, parts[0])
    for p in parts[1:-1]:
      c = c.inner.get(p)
      if c is None: raise AnalysisError("class path %s not found" % qual)
    f = c.methods.get(parts[-1])
    if f is None:
      f = c.find_method(parts[-1])
    if f is None: raise AnalysisError("method %s not found" % qual)
    return f
  def has_func (self, qual):
    try: self.func(qual); return True
    except AnalysisError: return False
  def all_classes (self):
    for m in self.modules.values():
      for c in m.classes.values():
        yield c
  def subclasses (self, cls, strict=True):
    out = []
    for c in self.all_classes():
      if c is cls and strict: continue
      if cls in c.mro(): out.append(c)
    return out
  def getattr_static (self, base, attr):
    if base is None: return None
    if isinstance(base, ModRef):
      if base.module is None: return None
      r = base.module.lookup(attr)
      if r is not None: return r
      sub = self.modules.get(base.module.name + '.' + attr)
      return ModRef(sub) if sub is not None else None
    if isinstance(base, Cls):
      f = base.find_method(attr)
      if f is not None: return f
      c, v = base.find_assign(attr)
      if c is not None: return ('const', c.module, v)
      for k in base.mro():
        if attr in k.inner: return k.inner[attr]
      return None
    return None
  def dynamic_global (self, module, name):
    d = self.dynamic.get(module.name)
    if d is None:
      from . import dynnames
      d = self.dynamic[module.name] = dynnames.compute(self, module)
    if name in d: return ('value', module, d[name])
    # star-imported modules may carry dynamic names too
    for sm in module.stars:
      m = self.modules.get(sm)
      if m is not None and m is not module:
        r = self.dynamic_global(m, name)
        if r is not None: return r
    return None
  # -- constants
  def const (self, module, e, cls=None, _depth=0):
    """Evaluate expression e (AST) in module context to a Python value.
    Raises KeyError('why') when not a constant."""
    if _depth > 20: raise KeyError('depth')
    ev = lambda x: self.const(module, x, cls, _depth + 1)
    if isinstance(e, ast.Constant): return e.value
    if isinstance(e, ast.Tuple): return tuple(ev(x) for x in e.elts)
    if isinstance(e, ast.List): return [ev(x) for x in e.elts]
    if isinstance(e, ast.Dict): return {ev(k): ev(v) for k, v in zip(e.keys, e.values)}
    if isinstance(e, ast.UnaryOp):
      v = ev(e.operand)
      if isinstance(e.op, ast.USub): return -v
      if isinstance(e.op, ast.Invert): return ~v
      if isinstance(e.op, ast.Not): return not v
      if isinstance(e.op, ast.UAdd): return +v
    if isinstance(e, ast.BinOp):
      a = ev(e.left); b = ev(e.right)
      op = type(e.op)
      try:
        if op is ast.Add: return a + b
        if op is ast.Sub: return a - b
        if op is ast.Mult: return a * b
        if op is ast.FloorDiv: return a // b
        if op is ast.Div: return a / b
        if op is ast.Mod: return a % b
        if op is ast.LShift: return a << b
        if op is ast.RShift: return a >> b
        if op is ast.BitOr: return a | b
        if op is ast.BitAnd: return a & b
        if op is ast.BitXor: return a ^ b
        if op is ast.Pow: return a ** b
      except Exception as ex:
        raise KeyError('binop failed: %s' % ex)
    if isinstance(e, ast.Name):
      if cls is not None:
        c, v = cls.find_assign(e.id)
        if c is not None and v is not None:
          return self.const(c.module, v, c, _depth + 1)
      r = module.lookup(e.id)
      return self._const_of(r, e.id, _depth)
    if isinstance(e, ast.Attribute):
      if isinstance(e.value, ast.Name) and e.value.id == 'self' and cls is not None:
        c, v = cls.find_assign(e.attr)
        if c is not None and v is not None:
          return self.const(c.module, v, c, _depth + 1)
        raise KeyError('self.%s not a class constant' % e.attr)
      base = module.resolve_expr(e.value)
      r = self.getattr_static(base, e.attr)
      return self._const_of(r, ast.unparse(e), _depth)
    if isinstance(e, ast.Call):
      fn = e.func
      if isinstance(fn, ast.Name) and fn.id == 'len' and len(e.args) == 1:
        a = e.args[0]
        r = module.resolve_expr(a) if isinstance(a, (ast.Name, ast.Attribute)) else None
        if isinstance(r, Cls):
          from . import layout
          n = layout.static_len(self, r)
          if n is not None: return n
        v = ev(a)
        return len(v)
      if (isinstance(fn, ast.Attribute) and fn.attr == 'calcsize') or \
         (isinstance(fn, ast.Name) and fn.id == 'calcsize'):
        return struct.calcsize(ev(e.args[0]))
      if isinstance(fn, ast.Name) and fn.id in ('int', 'bytes', 'str') and len(e.args) == 1:
        return {'int': int, 'bytes': bytes, 'str': str}[fn.id](ev(e.args[0]))
    raise KeyError('not constant: %s' % ast.unparse(e)[:60])
  def _const_of (self, r, what, _depth):
    if r is None: raise KeyError('unresolved: %s' % what)
    if isinstance(r, tuple):
      if r[0] == 'value': return r[2]
      if r[0] == 'const':
        if r[2] is None: raise KeyError('no value: %s' % what)
        return self.const(r[1], r[2], None, _depth + 1)
    raise KeyError('not a constant: %s' % what)
  def try_const (self, module, e, cls=None, default=None):
    try: return self.const(module, e, cls)
    except (KeyError, TypeError, ValueError, RecursionError): return default

# ---------------------------------------------------------------------------
# small AST helpers shared by the rules

def walk_no_nested (node):
  """ast.walk that does not descend into nested function/class/lambda bodies"""
  todo = list(ast.iter_child_nodes(node))
  while todo:
    n = todo.pop()
    yield n
    if isinstance(n, (ast.FunctionDef, ast.AsyncFunctionDef, ast.ClassDef, ast.Lambda)):
      continue
    todo.extend(ast.iter_child_nodes(n))

def calls_in (node, nested=False):
  it = ast.walk(node) if nested else walk_no_nested(node)
  if isinstance(node, ast.Call): yield node
  for n in it:
    if isinstance(n, ast.Call): yield n

def call_name (c):
  f = c.func
  if isinstance(f, ast.Attribute): return f.attr
  if isinstance(f, ast.Name): return f.id
  return None

def dotted (e):
  """'self.a.b' for Name/Attribute chains, else None"""
  parts = []
  while isinstance(e, ast.Attribute):
    parts.append(e.attr); e = e.value
  if isinstance(e, ast.Name):
    parts.append(e.id)
    return '.'.join(reversed(parts))
  return None

def kwarg (call, name, pos=None):
  for k in call.keywords:
    if k.arg == name: return k.value
  if pos is not None and len(call.args) > pos and not any(isinstance(a, ast.Starred) for a in call.args[:pos + 1]):
    return call.args[pos]
  return None

def norm (e):
  return ast.unparse(e) if e is not None else None
