"""Normalisation of the tree under analysis before any rule looks at it.

The rules were confirmed against today's tree, whose functions and local
variables are recorded in spec/inventory.json (the *reference vocabulary*).
Maintenance edits introduce new private helpers and new temporaries; a rule
that only understands the old spelling would raise a false alarm (or, worse,
lose its anchor).  This module makes such edits transparent, by source-level
rewriting of the parsed AST (nothing is executed):

  N1  desugar   x == None -> x is None;  a < b < c -> a < b and b < c;
                not (A or B) -> not A and not B (De Morgan, and double negation);
                v = a if c else b  ->  if c: v = a  else: v = b  (also return / augmented forms)
  N2  inline    a call to a function that is NOT in the reference vocabulary (a new helper:
                method of the same class, staticmethod, module function or local closure) is
                replaced by the helper's body, parameters substituted, locals renamed,
                `return` eliminated structurally (continuation pushing; done-flag for loops)
  N3  expand    a local that is NOT in the reference vocabulary of its function, assigned once
                from a side-effect-free expression, is replaced at its uses by that expression
                when nothing the expression reads is stored to in between (copy propagation)

All three are semantics-preserving for the analyses (N2/N3 under the stated conditions; where a
condition fails the construct is simply left alone and stays opaque).  Functions and locals that
exist in the reference vocabulary are never touched by N2/N3, so today's tree is analysed as written.
"""
import ast, copy, json, os

V = os.path.dirname(os.path.dirname(os.path.abspath(__file__)))
_INV = None
def inventory ():
  global _INV
  if _INV is None:
    p = os.path.join(V, 'spec', 'inventory.json')
    _INV = json.load(open(p)) if os.path.exists(p) else {}
  return _INV

FUNC = (ast.FunctionDef, ast.AsyncFunctionDef)
SCOPES = FUNC + (ast.Lambda, ast.ClassDef, ast.ListComp, ast.SetComp, ast.DictComp, ast.GeneratorExp)

def own_nodes (fn):
  st = list(ast.iter_child_nodes(fn))
  while st:
    n = st.pop()
    yield n
    if isinstance(n, SCOPES): continue
    st.extend(ast.iter_child_nodes(n))

def params_of (fn):
  a = fn.args
  out = [x.arg for x in a.posonlyargs + a.args + a.kwonlyargs]
  if a.vararg: out.append(a.vararg.arg)
  if a.kwarg: out.append(a.kwarg.arg)
  return out

def local_names (fn):
  """names bound in fn's own scope (params, stores, except names, nested def names, imports)"""
  out = set(params_of(fn))
  for n in own_nodes(fn):
    if isinstance(n, ast.Name) and isinstance(n.ctx, (ast.Store, ast.Del)): out.add(n.id)
    elif isinstance(n, ast.ExceptHandler) and n.name: out.add(n.name)
    elif isinstance(n, FUNC + (ast.ClassDef,)): out.add(n.name)
    elif isinstance(n, (ast.Import, ast.ImportFrom)):
      for al in n.names: out.add((al.asname or al.name).split('.')[0])
  return out

def module_inventory (tree):
  """{qualname: sorted local names} for every function reachable through module / class bodies"""
  out = {}
  def visit (body, prefix):
    for s in body:
      if isinstance(s, FUNC):
        out[prefix + s.name] = sorted(local_names(s))
        for n in ast.walk(s):
          if n is not s and isinstance(n, FUNC): out[prefix + s.name + '.' + n.name] = sorted(local_names(n))
      elif isinstance(s, ast.ClassDef):
        visit(s.body, prefix + s.name + '.')
      elif isinstance(s, (ast.If, ast.Try)):
        for f in ('body', 'orelse', 'finalbody'):
          visit(getattr(s, f, []) or [], prefix)
        for h in getattr(s, 'handlers', []): visit(h.body, prefix)
  visit(tree.body, '')
  # module-level and class-level assigned names (reference vocabulary of constants)
  def assigned (body):
    names = []
    for s in body:
      if isinstance(s, ast.Assign):
        for t in s.targets:
          for x in ast.walk(t):
            if isinstance(x, ast.Name): names.append(x.id)
      elif isinstance(s, ast.AnnAssign) and isinstance(s.target, ast.Name): names.append(s.target.id)
    return sorted(set(names))
  out['<module>'] = assigned(tree.body)
  for s in tree.body:
    if isinstance(s, ast.ClassDef): out['<class %s>' % s.name] = assigned(s.body)
  return out

# ---------------------------------------------------------------- N0 alpha-normalisation against the reference skeleton
_SKEL = None
def skeletons ():
  global _SKEL
  if _SKEL is None:
    p = os.path.join(V, 'spec', 'skeletons.json')
    _SKEL = json.load(open(p)) if os.path.exists(p) else {}
  return _SKEL

def _bound_names (fn):
  """names bound anywhere inside fn (own scope and nested scopes) except fn's own parameters and global/nonlocal names"""
  out = set(); excl = set(params_of(fn))
  for n in ast.walk(fn):
    if n is fn: continue
    if isinstance(n, ast.Name) and isinstance(n.ctx, (ast.Store, ast.Del)): out.add(n.id)
    elif isinstance(n, ast.ExceptHandler) and n.name: out.add(n.name)
    elif isinstance(n, FUNC): out.add(n.name)
    elif isinstance(n, ast.arg): out.add(n.arg)
    elif isinstance(n, (ast.Global, ast.Nonlocal)): excl.update(n.names)
  # parameters of nested functions/lambdas that are passed by keyword somewhere cannot be renamed safely: keep it simple
  # and leave every nested parameter that also occurs as a keyword name alone
  # ... except keywords of calls that go to a nested function by its plain name: those are renamed along with the parameter
  nested_fn = dict((n.name, set(a.arg for a in ast.walk(n.args) if isinstance(a, ast.arg))) for n in ast.walk(fn) if n is not fn and isinstance(n, FUNC))
  kws = set(k.arg for n in ast.walk(fn) if isinstance(n, ast.Call) for k in n.keywords if k.arg
            and not (isinstance(n.func, ast.Name) and n.func.id in nested_fn and k.arg in nested_fn[n.func.id]))
  nested_params = set(a.arg for n in ast.walk(fn) if n is not fn and isinstance(n, FUNC + (ast.Lambda,)) for a in ast.walk(n.args) if isinstance(a, ast.arg))
  return out - excl - (nested_params & kws)

def _own_keywords (fn):
  """keyword nodes of calls to a nested function of fn (by plain name) that name one of its parameters"""
  nested_fn = dict((n.name, set(a.arg for a in ast.walk(n.args) if isinstance(a, ast.arg))) for n in ast.walk(fn) if n is not fn and isinstance(n, FUNC))
  return set(id(k) for n in ast.walk(fn) if isinstance(n, ast.Call) and isinstance(n.func, ast.Name) and n.func.id in nested_fn for k in n.keywords if k.arg in nested_fn[n.func.id])

def function_skeleton (fn):
  """(digest, names): fn with every bound name replaced by its order of first appearance; docstrings ignored"""
  import hashlib
  B = _bound_names(fn)
  order = {}
  def idx (name):
    if name not in order: order[name] = len(order)
    return '\x00L%d' % order[name]
  cp = copy.deepcopy(fn)
  own_params = set(params_of(fn))
  okw = _own_keywords(cp)
  def walk (n, top):
    if isinstance(n, ast.Name) and n.id in B: n.id = idx(n.id)
    elif isinstance(n, ast.keyword) and id(n) in okw and n.arg in B: n.arg = idx(n.arg)
    elif isinstance(n, ast.ExceptHandler) and n.name and n.name in B: n.name = idx(n.name)
    elif isinstance(n, FUNC) and not top and n.name in B: n.name = idx(n.name)
    elif isinstance(n, ast.arg) and n.arg in B and n.arg not in own_params: n.arg = idx(n.arg)
    elif isinstance(n, ast.arg) and n.arg in B: pass
    for f, v in ast.iter_fields(n):
      if isinstance(v, list):
        if f == 'body' and v and isinstance(v[0], ast.Expr) and isinstance(v[0].value, ast.Constant) and isinstance(v[0].value.value, str) and isinstance(n, FUNC + (ast.ClassDef,)):
          v = v[1:]; setattr(n, f, v)
        for x in v:
          if isinstance(x, ast.AST): walk(x, False)
      elif isinstance(v, ast.AST): walk(v, False)
  walk(cp, True)
  names = [k for k, _ in sorted(order.items(), key=lambda kv: kv[1])]
  return hashlib.sha1(ast.dump(cp, annotate_fields=False).encode()).hexdigest()[:16], names

def _is_private (nm):
  return isinstance(nm, str) and nm.startswith('_') and not (nm.startswith('__') and nm.endswith('__')) and len(nm) > 1

def member_skeleton (fn):
  """(digest, names): like function_skeleton, additionally blind to how private members are called - every `_name` used as an
  attribute or as a free (global) name is masked in the digest and listed, in order of appearance, in names; fn's own name is
  masked too.  Two functions with the same digest differ at most in the spelling of locals and of private members."""
  import hashlib
  B = _bound_names(fn) | set(params_of(fn))
  cp = copy.deepcopy(fn); cp.name = '@'
  order = {}; priv = []
  def idx (name):
    if name not in order: order[name] = len(order)
    return '\x00L%d' % order[name]
  def walk (n):
    if isinstance(n, ast.Name):
      if n.id in B: n.id = idx(n.id)
      elif _is_private(n.id): priv.append(n.id); n.id = '@'
    elif isinstance(n, ast.Attribute):
      walk(n.value)
      if _is_private(n.attr): priv.append(n.attr); n.attr = '@'
      return
    elif isinstance(n, ast.ExceptHandler) and n.name: n.name = idx(n.name)
    elif isinstance(n, FUNC) and n is not cp: n.name = idx(n.name)
    elif isinstance(n, ast.arg): n.arg = idx(n.arg)
    elif isinstance(n, ast.keyword) and n.arg is not None and _is_private(n.arg): priv.append(n.arg); n.arg = '@'
    for f, v in ast.iter_fields(n):
      if isinstance(v, list):
        if f == 'body' and v and isinstance(v[0], ast.Expr) and isinstance(v[0].value, ast.Constant) and isinstance(v[0].value.value, str) and isinstance(n, FUNC + (ast.ClassDef,)):
          v = v[1:]; setattr(n, f, v)
        for x in v:
          if isinstance(x, ast.AST): walk(x)
      elif isinstance(v, ast.AST): walk(v)
  walk(cp)
  return hashlib.sha1(ast.dump(cp, annotate_fields=False).encode()).hexdigest()[:16], priv

def module_skeletons (tree):
  out = {}
  def visit (body, prefix):
    for s in body:
      if isinstance(s, FUNC):
        d, names = function_skeleton(s)
        hm, pv = member_skeleton(s)
        out[prefix + s.name] = {'h': d, 'n': names, 'hm': hm, 'p': pv}
      elif isinstance(s, ast.ClassDef): visit(s.body, prefix + s.name + '.')
      elif isinstance(s, (ast.If, ast.Try)):
        for f in ('body', 'orelse', 'finalbody'): visit(getattr(s, f, []) or [], prefix)
        for h in getattr(s, 'handlers', []): visit(h.body, prefix)
  visit(tree.body, '')
  return out

def private_names (tree):
  out = set()
  for n in ast.walk(tree):
    if isinstance(n, ast.Attribute) and _is_private(n.attr): out.add(n.attr)
    elif isinstance(n, ast.Name) and _is_private(n.id): out.add(n.id)
    elif isinstance(n, FUNC + (ast.ClassDef,)) and _is_private(n.name): out.add(n.name)
    elif isinstance(n, ast.keyword) and _is_private(n.arg): out.add(n.arg)
    elif isinstance(n, ast.arg) and _is_private(n.arg): out.add(n.arg)
  return out

def member_renames (trees):
  """N0m: recovery of consistently renamed private members (methods, attributes, module-level helpers).
  trees: {module name: parsed tree} of the tree under analysis.  A name `new` that the reference vocabulary does not know is
  taken to be the new spelling of the reference name `old` when
    - functions that are otherwise identical to their reference versions (same member-blind digest) use `new` exactly where the
      reference used `old` - or a function that vanished from a scope and a new one in the same scope are identical that way -,
    - every such witness agrees on `old`, and
    - no function of a scope that witnesses the renaming still mentions `old` (the renaming is complete there: a *partial*
      replacement is a change of behaviour, not a renaming, and is left for the rules to see).
  Returns {new: old}.  Nothing is guessed for functions whose bodies changed as well."""
  ref = skeletons()
  known = set(ref.get('<private-names>', {}).get('names', [])) if isinstance(ref.get('<private-names>'), dict) else set()
  if not known: return {}
  votes = {}; scopes = {}
  cur_all = {}
  for mod, tree in trees.items():
    r = ref.get(mod)
    if not r: continue
    cur = module_skeletons(tree); cur_all[mod] = cur
    def vote (a, b, scope):
      if a == b: return
      votes.setdefault(a, set()).add(b); scopes.setdefault(a, set()).add(scope)
    for q_, c in cur.items():
      rr = r.get(q_)
      if rr is None or 'hm' not in rr: continue
      if c['h'] != rr['h'] and c['hm'] == rr['hm'] and len(c['p']) == len(rr['p']):
        for a, b in zip(c['p'], rr['p']): vote(a, b, (mod, q_.rsplit('.', 1)[0] if '.' in q_ else ''))
    missing = [k for k in r if k not in cur and not k.startswith('<')]
    extra = [k for k in cur if k not in r]
    for m in missing:
      pre = m.rsplit('.', 1)[0] if '.' in m else ''
      cands = [e for e in extra if (e.rsplit('.', 1)[0] if '.' in e else '') == pre and cur[e]['hm'] == r[m].get('hm') and len(cur[e]['p']) == len(r[m].get('p', []))]
      back = [m2 for m2 in missing if (m2.rsplit('.', 1)[0] if '.' in m2 else '') == pre and cands and r[m2].get('hm') == cur[cands[0]]['hm']]
      if len(cands) == 1 and len(back) == 1:
        e = cands[0]
        vote(e.rsplit('.', 1)[-1], m.rsplit('.', 1)[-1], (mod, pre))
        for a, b in zip(cur[e]['p'], r[m]['p']): vote(a, b, (mod, pre))
  out = {}
  for a, bs in votes.items():
    if len(bs) != 1 or a in known or not _is_private(a): continue
    b = next(iter(bs))
    if not _is_private(b) or b not in known: continue
    partial = False
    for (mod, pre) in scopes[a]:
      for q_, c in cur_all[mod].items():
        if (q_.rsplit('.', 1)[0] if '.' in q_ else '') != pre: continue
        if b in c['p'] or q_.rsplit('.', 1)[-1] == b: partial = True
    if not partial: out[a] = b
  # two new names for one old name: a member was split, not renamed
  inv_ = {}
  for a, b in out.items(): inv_.setdefault(b, []).append(a)
  return dict((a, b) for a, b in out.items() if len(inv_[b]) == 1)

def alpha_rename (tree, modname):
  """N0: a function whose shape is exactly the reference function's and that differs only in how its locals are called gets the
  reference names back (pure renaming of locals).  Returns the number of functions renamed."""
  ref = skeletons().get(modname)
  if not ref: return 0
  n = 0
  def visit (body, prefix):
    nonlocal n
    for s in body:
      if isinstance(s, FUNC):
        r = ref.get(prefix + s.name)
        if r is None: continue
        d, names = function_skeleton(s)
        if d != r['h'] or names == r['n'] or len(names) != len(r['n']): continue
        m = dict((a, b) for a, b in zip(names, r['n']) if a != b)
        own_params = set(params_of(s))
        okw = _own_keywords(s)
        for x in ast.walk(s):
          if isinstance(x, ast.Name) and x.id in m: x.id = m[x.id]
          elif isinstance(x, ast.keyword) and id(x) in okw and x.arg in m: x.arg = m[x.arg]
          elif isinstance(x, ast.ExceptHandler) and x.name in m: x.name = m[x.name]
          elif isinstance(x, FUNC) and x is not s and x.name in m: x.name = m[x.name]
          elif isinstance(x, ast.arg) and x.arg in m and x.arg not in own_params: x.arg = m[x.arg]
        n += 1
      elif isinstance(s, ast.ClassDef): visit(s.body, prefix + s.name + '.')
      elif isinstance(s, (ast.If, ast.Try)):
        for f in ('body', 'orelse', 'finalbody'): visit(getattr(s, f, []) or [], prefix)
        for h in getattr(s, 'handlers', []): visit(h.body, prefix)
  visit(tree.body, '')
  return n

# ---------------------------------------------------------------- N1 desugar
class _Desugar(ast.NodeTransformer):
  def visit_Try (self, n):
    """try: <one statement whose only call is SEQ.index(V)>  except ValueError: H   ==   if V in SEQ: <statement> else: H
    (SEQ a plain name / attribute chain, V a constant or name: list.index raises ValueError exactly when V is not in SEQ)"""
    self.generic_visit(n)
    if len(n.body) == 1 and len(n.handlers) == 1 and not n.orelse and not n.finalbody and n.handlers[0].name is None \
       and isinstance(n.handlers[0].type, ast.Name) and n.handlers[0].type.id == 'ValueError' and isinstance(n.body[0], (ast.Return, ast.Assign, ast.Expr)):
      calls = [c for c in ast.walk(n.body[0]) if isinstance(c, ast.Call)]
      if len(calls) == 1 and isinstance(calls[0].func, ast.Attribute) and calls[0].func.attr == 'index' and len(calls[0].args) == 1 and not calls[0].keywords:
        seq = calls[0].func.value; v = calls[0].args[0]
        b = seq
        while isinstance(b, ast.Attribute): b = b.value
        if isinstance(b, ast.Name) and isinstance(v, (ast.Constant, ast.Name)) and not any(isinstance(x, (ast.Subscript, ast.BinOp)) for x in ast.walk(n.body[0]) if x is not calls[0]):
          test = ast.Compare(left=copy.deepcopy(v), ops=[ast.In()], comparators=[copy.deepcopy(seq)])
          new = ast.If(test=test, body=n.body, orelse=n.handlers[0].body)
          return ast.fix_missing_locations(ast.copy_location(new, n))
    return n
  def visit_Compare (self, n):
    self.generic_visit(n)
    if len(n.ops) == 1:
      if isinstance(n.ops[0], (ast.Eq, ast.NotEq)) and isinstance(n.comparators[0], ast.Constant) and n.comparators[0].value is None:
        n.ops = [ast.Is() if isinstance(n.ops[0], ast.Eq) else ast.IsNot()]
      return n
    mids = n.comparators[:-1]
    if all(_simple(m) for m in mids):
      parts = []; left = n.left
      for op, right in zip(n.ops, n.comparators):
        parts.append(ast.copy_location(ast.Compare(left=copy.deepcopy(left), ops=[op], comparators=[right]), n))
        left = right
      return ast.copy_location(ast.BoolOp(op=ast.And(), values=parts), n)
    return n
  def visit_UnaryOp (self, n):
    self.generic_visit(n)
    if isinstance(n.op, ast.Not):
      o = n.operand
      if isinstance(o, ast.UnaryOp) and isinstance(o.op, ast.Not) and _boolish(o.operand): return o.operand
      if isinstance(o, ast.BoolOp):
        vals = [self.visit(ast.copy_location(ast.UnaryOp(op=ast.Not(), operand=v), v)) for v in o.values]
        return ast.copy_location(ast.BoolOp(op=ast.Or() if isinstance(o.op, ast.And) else ast.And(), values=vals), n)
      if isinstance(o, ast.Compare) and len(o.ops) == 1:
        inv = {ast.Is: ast.IsNot, ast.IsNot: ast.Is, ast.In: ast.NotIn, ast.NotIn: ast.In, ast.Eq: ast.NotEq, ast.NotEq: ast.Eq}.get(type(o.ops[0]))
        if inv is not None:
          return ast.copy_location(ast.Compare(left=o.left, ops=[inv()], comparators=o.comparators), n)
    return n

def _simple (e):
  if isinstance(e, (ast.Name, ast.Constant)): return True
  if isinstance(e, ast.Attribute): return _simple(e.value)
  if isinstance(e, ast.Call) and isinstance(e.func, ast.Name) and e.func.id == 'len' and len(e.args) == 1: return _simple(e.args[0])
  if isinstance(e, ast.BinOp): return _simple(e.left) and _simple(e.right)
  if isinstance(e, ast.Subscript): return _simple(e.value) and _simple(e.slice)
  return False

def _boolish (e):
  return isinstance(e, (ast.Compare, ast.BoolOp)) or (isinstance(e, ast.UnaryOp) and isinstance(e.op, ast.Not))

def _split_ifexp (body):
  """v = a if c else b -> if c: v = a else: v = b ; likewise return / augassign"""
  out = []
  for s in body:
    for f in ('body', 'orelse', 'finalbody'):
      b = getattr(s, f, None)
      if isinstance(b, list) and b and isinstance(b[0], ast.stmt) and not isinstance(s, SCOPES): setattr(s, f, _split_ifexp(b))
    if isinstance(s, ast.Try):
      for h in s.handlers: h.body = _split_ifexp(h.body)
    v = getattr(s, 'value', None)
    if isinstance(s, (ast.Assign, ast.Return, ast.AugAssign)) and isinstance(v, ast.IfExp):
      a = copy.copy(s); a.value = v.body
      b = copy.copy(s); b.value = v.orelse
      if isinstance(s, ast.Assign): b.targets = copy.deepcopy(s.targets)
      out.append(ast.copy_location(ast.If(test=v.test, body=[a], orelse=[b]), s))
    else: out.append(s)
  return out

# ---------------------------------------------------------------- N2 inline
class NotInlinable(Exception): pass

def _count_stmts (fn): return sum(1 for n in ast.walk(fn) if isinstance(n, ast.stmt))

def _inlinable (fn):
  if _count_stmts(fn) > 80: return False
  a = fn.args
  if a.vararg or a.kwarg: return False
  for n in own_nodes(fn):
    if isinstance(n, (ast.Yield, ast.YieldFrom, ast.Await, ast.Global, ast.Nonlocal)): return False
  for d in fn.decorator_list:
    nm = d.id if isinstance(d, ast.Name) else (d.attr if isinstance(d, ast.Attribute) else None)
    if nm not in ('staticmethod', 'classmethod'): return False
  return True

def _has_return (stmts):
  for s in stmts:
    for n in ([s] + list(own_nodes(s))) if not isinstance(s, SCOPES) else []:
      if isinstance(n, ast.Return): return True
  return False

class _Subst(ast.NodeTransformer):
  def __init__ (self, m): self.m = m
  def visit_Name (self, n):
    r = self.m.get(n.id)
    if r is None: return n
    if isinstance(r, str):
      n.id = r; return n
    if isinstance(n.ctx, ast.Load): return copy.deepcopy(r)
    return n
  def visit_ExceptHandler (self, n):
    self.generic_visit(n)
    r = self.m.get(n.name) if n.name else None
    if isinstance(r, str): n.name = r
    return n
  def visit_arg (self, n): return n

def _mk_assign (name, value, at):
  return ast.copy_location(ast.Assign(targets=[ast.Name(id=name, ctx=ast.Store())], value=value, lineno=getattr(at, 'lineno', 1)), at)

def _elim_loopmode (stmts, ret, done):
  """inside a loop (real, or the one-iteration wrapper): `return e` -> ret = e; done = True; break"""
  out = []
  for s in stmts:
    if isinstance(s, ast.Return):
      if ret is not None: out.append(_mk_assign(ret, s.value if s.value is not None else ast.Constant(value=None), s))
      elif s.value is not None and not isinstance(s.value, (ast.Constant, ast.Name)): out.append(ast.copy_location(ast.Expr(value=s.value), s))
      out.append(_mk_assign(done, ast.Constant(value=True), s))
      out.append(ast.copy_location(ast.Break(), s))
      return out
    if isinstance(s, SCOPES) or not _has_return([s]):
      out.append(s); continue
    inner_loop = isinstance(s, (ast.For, ast.While, ast.AsyncFor))
    for f in ('body', 'orelse', 'finalbody'):
      b = getattr(s, f, None)
      if isinstance(b, list) and b and isinstance(b[0], ast.stmt): setattr(s, f, _elim_loopmode(b, ret, done))
    if isinstance(s, ast.Try):
      for h in s.handlers: h.body = _elim_loopmode(h.body, ret, done)
    out.append(s)
    if inner_loop:
      out.append(ast.copy_location(ast.If(test=ast.Name(id=done, ctx=ast.Load()), body=[ast.Break()], orelse=[]), s))
  return out

def _elim (stmts, k, ret, done):
  """structured return elimination of `stmts` followed by continuation `k` (not in a loop):
  guard clauses become if/else, the continuation is pushed into branches that contain a return."""
  if not stmts:
    return _elim(k, [], ret, done) if k else []
  s, after = stmts[0], stmts[1:]
  if isinstance(s, ast.Return):
    if ret is not None: return [_mk_assign(ret, s.value if s.value is not None else ast.Constant(value=None), s)]
    if s.value is not None and not isinstance(s.value, (ast.Constant, ast.Name)): return [ast.copy_location(ast.Expr(value=s.value), s)]
    return [ast.copy_location(ast.Pass(), s)]
  if isinstance(s, SCOPES) or not _has_return([s]):
    return [s] + _elim(after, k, ret, done)
  rest = after + k
  if isinstance(s, ast.If):
    s.body = _elim(s.body, copy.deepcopy(rest), ret, done) or [ast.copy_location(ast.Pass(), s)]
    s.orelse = _elim(s.orelse, copy.deepcopy(rest), ret, done)
    return [s]
  if isinstance(s, (ast.For, ast.While, ast.AsyncFor)):
    if s.orelse and _has_return(s.orelse): raise NotInlinable("return in loop else")
    s.body = _elim_loopmode(s.body, ret, done)
    out = [_mk_assign(done, ast.Constant(value=False), s), s]
    r = _elim(rest, [], ret, done)
    if r: out.append(ast.copy_location(ast.If(test=ast.UnaryOp(op=ast.Not(), operand=ast.Name(id=done, ctx=ast.Load())), body=r, orelse=[]), s))
    return out
  if isinstance(s, (ast.Try, ast.With, ast.AsyncWith)):
    # one-iteration wrapper: lets `return` inside try/with become a `break`
    inner = _elim_loopmode([s], ret, done)
    loop = ast.copy_location(ast.For(target=ast.Name(id=done + '_once', ctx=ast.Store()), iter=ast.Tuple(elts=[ast.Constant(value=None)], ctx=ast.Load()), body=inner, orelse=[], lineno=s.lineno), s)
    out = [_mk_assign(done, ast.Constant(value=False), s), loop]
    r = _elim(rest, [], ret, done)
    if r: out.append(ast.copy_location(ast.If(test=ast.UnaryOp(op=ast.Not(), operand=ast.Name(id=done, ctx=ast.Load())), body=r, orelse=[]), s))
    return out
  raise NotInlinable("return inside %s" % type(s).__name__)

def _falls (stmts):
  """may the list fall through its end (approximation: last statement is not return/raise/continue/break, or an if with a falling branch)"""
  if not stmts: return True
  s = stmts[-1]
  if isinstance(s, (ast.Return, ast.Raise, ast.Continue, ast.Break)): return False
  if isinstance(s, ast.If): return _falls(s.body) or _falls(s.orelse)
  return True

# primitives that mark the function around them as a unit the rules are written against (e.g. the physical emission of a
# frame: the guards that precede it form "the checked send", whether that is a closure, a method or a function): a new
# helper that calls one directly is kept as a unit and never dissolved into its callers
ANCHOR_CALLS = {'_output_packet_physical'}
def _calls_anchor (fn):
  for n in ast.walk(fn):
    if isinstance(n, ast.Call):
      f = n.func
      if (isinstance(f, ast.Attribute) and f.attr in ANCHOR_CALLS) or (isinstance(f, ast.Name) and f.id in ANCHOR_CALLS): return True
  return False

class Inliner(object):
  def __init__ (self, tree, modinv, external_def=None, external_name=None):
    self.tree = tree; self.inv = modinv; self.counter = 0; self.inlined = []; self.skip = set()
    self.external_def = external_def
    # a method defined by more than one class (here or in another file) may be reached by dynamic dispatch: `self.m()` in
    # the base class can run a subclass's m - such a call is never replaced by one of the bodies
    self.def_classes = {}
    self.bases = {}
    for c in ast.walk(tree):
      if isinstance(c, ast.ClassDef):
        self.bases[c.name] = set(b.id if isinstance(b, ast.Name) else (b.attr if isinstance(b, ast.Attribute) else '?') for b in c.bases)
        for s in c.body:
          if isinstance(s, FUNC): self.def_classes.setdefault(s.name, set()).add(c.name)
    self.external_name = external_name
    self.helpers = {}      # ('method', cls, name) / ('func', name) -> FunctionDef   (new helpers only)
    self.methods_by_name = {}
    def visit (body, cls):
      for s in body:
        if isinstance(s, FUNC):
          q = (cls + '.' if cls else '') + s.name
          if q not in self.inv and _inlinable(s) and not _calls_anchor(s):
            if cls: self.helpers[('method', cls, s.name)] = s; self.methods_by_name.setdefault(s.name, []).append((cls, s))
            else: self.helpers[('func', s.name)] = s
        elif isinstance(s, ast.ClassDef): visit(s.body, (cls + '.' if cls else '') + s.name)
    visit(tree.body, '')

  def run (self):
    def visit (body, cls):
      for s in body:
        if isinstance(s, FUNC): self.process(s, cls, (cls + '.' if cls else '') + s.name, depth=0, closures={})
        elif isinstance(s, ast.ClassDef): visit(s.body, (cls + '.' if cls else '') + s.name)
    visit(self.tree.body, '')

  def _dead_after (self, call, name):
    """is the caller's local `name` never read after the statement containing `call` (no enclosing loop, no later line reads it)?"""
    fn = getattr(self, 'cur_fn', None)
    if fn is None or not any(y is call for y in ast.walk(fn)): return False
    end = getattr(call, 'end_lineno', None) or call.lineno
    for x in ast.walk(fn):
      if isinstance(x, (ast.For, ast.While, ast.AsyncFor)) and any(y is call for y in ast.walk(x)): return False
      if isinstance(x, FUNC) and x is not fn and any(isinstance(y, ast.Name) and y.id == name for y in ast.walk(x)): return False
    for x in ast.walk(fn):
      if isinstance(x, ast.Name) and x.id == name and isinstance(x.ctx, ast.Load) and getattr(x, 'lineno', 0) > end: return False
    return True

  def _defined_elsewhere (self, name):
    try: return bool(self.external_def(name))
    except TypeError: return True
  # -- resolution of a call to a new helper
  def resolve (self, call, cls, closures):
    f = call.func
    if id(call) in self.skip: return None
    if isinstance(f, ast.Name):
      if f.id in closures: return closures[f.id], None, 'closure'
      h = self.helpers.get(('func', f.id))
      if h is not None: return h, None, 'func'
      return None
    if isinstance(f, ast.Attribute):
      cands = self.methods_by_name.get(f.attr)
      if not cands: return None
      # related classes of this module that define the same method (overriding either way)
      me = (cls or '').split('.')[-1]
      def related (a, b, seen=None):
        seen = seen or set()
        if a == b: return True
        if a in seen: return False
        seen.add(a)
        return any(related(x, b, seen) for x in self.bases.get(a, ()))
      others = [c for c in self.def_classes.get(f.attr, ()) if c != me]
      if any(related(c, me) or related(me, c) for c in others): return None
      if me and '?' in self.bases.get(me, ()): return None
      # a subclass in another file: only possible if that file mentions this class and defines a method of this name
      if self.external_def is not None and me:
        try: over = self.external_def(f.attr, me)
        except TypeError: over = self.external_def(f.attr) and (self.external_name is None or self.external_name(me))
        if over: return None
      h = None
      on_self = isinstance(f.value, ast.Name) and f.value.id in ('self', 'cls')
      for c, fn in cands:
        if c == cls and on_self: h = fn
      if h is None and len(cands) == 1 and not on_self:
        # a call on some other object: it means this helper only if nothing else anywhere has a method of that name
        if len(self.def_classes.get(f.attr, ())) == 1 and not (self.external_def is not None and self._defined_elsewhere(f.attr)): h = cands[0][1]
      if h is None and len(cands) == 1 and on_self and cls is not None:
        # self.m() where m is a new helper of another class of this module: only if that class is an ancestor of this one
        oc = cands[0][0].split('.')[-1]
        if related(me, oc): h = cands[0][1]
      if h is None: return None
      decos = [d.id if isinstance(d, ast.Name) else getattr(d, 'attr', None) for d in h.decorator_list]
      if 'staticmethod' in decos: return h, None, 'static'
      if not isinstance(f.value, (ast.Name, ast.Attribute)): return None
      if 'classmethod' in decos: return h, ast.Name(id='type(self)', ctx=ast.Load()) if False else f.value, 'method'
      return h, f.value, 'method'
    return None

  def process (self, fn, cls, qual, depth, closures):
    """inline new helpers into fn's body (in place)"""
    known_locals = set(self.inv.get(qual, ()))
    closures = dict(closures)
    for s in fn.body:
      if isinstance(s, FUNC) and qual in self.inv and s.name not in known_locals and _inlinable(s):
        callee_uses = sum(1 for n in ast.walk(fn) if isinstance(n, ast.Call) and isinstance(n.func, ast.Name) and n.func.id == s.name)
        all_uses = sum(1 for n in ast.walk(fn) if isinstance(n, ast.Name) and n.id == s.name)
        if callee_uses == all_uses and callee_uses: closures[s.name] = s
    # a local lambda bound once to a new name and only ever called is a closure helper too
    lam_defs = {}
    if qual in self.inv:
      for s_ in fn.body:
        if isinstance(s_, ast.Assign) and len(s_.targets) == 1 and isinstance(s_.targets[0], ast.Name) and isinstance(s_.value, ast.Lambda) and s_.targets[0].id not in known_locals:
          nm_ = s_.targets[0].id
          stores_ = sum(1 for n in ast.walk(fn) if isinstance(n, ast.Name) and n.id == nm_ and isinstance(n.ctx, ast.Store))
          calls_ = sum(1 for n in ast.walk(fn) if isinstance(n, ast.Call) and isinstance(n.func, ast.Name) and n.func.id == nm_)
          loads_ = sum(1 for n in ast.walk(fn) if isinstance(n, ast.Name) and n.id == nm_ and isinstance(n.ctx, ast.Load))
          a_ = s_.value.args
          if stores_ == 1 and calls_ == loads_ and calls_ and not a_.vararg and not a_.kwarg:
            fd = ast.FunctionDef(name=nm_, args=a_, body=[ast.copy_location(ast.Return(value=s_.value.body), s_)], decorator_list=[], returns=None, type_comment=None, type_params=[])
            ast.copy_location(fd, s_); ast.fix_missing_locations(fd)
            closures[nm_] = fd; lam_defs[nm_] = s_
    if depth == 0: self.cur_fn = fn
    self.expr_inline(fn, cls, closures)
    for nm_, s_ in lam_defs.items():
      if not any(isinstance(n, ast.Name) and n.id == nm_ and isinstance(n.ctx, ast.Load) for n in ast.walk(fn)) and s_ in fn.body: fn.body.remove(s_)
    if depth == 0:
      self.cur_known = set(self.inv.get(qual, ())); self.cur_taken = local_names(fn); self.cur_claimed = set(); self.cur_fn = fn
    fn.body = self.block(fn.body, cls, qual, depth, closures)
    if depth == 0: _split_tuple_returns(fn)
    if depth == 0:
      self.claimed_by_func = getattr(self, 'claimed_by_func', {}); self.claimed_by_func[qual] = set(self.cur_claimed)
      self.cur_known = set(); self.cur_taken = set()
    # the definition of a closure disappears only when every call to it was inlined
    mine = [s for s in fn.body if isinstance(s, FUNC) and closures.get(s.name) is s]
    for d in mine:
      if not any(isinstance(n, ast.Name) and n.id == d.name for x in fn.body if x is not d for n in ast.walk(x)):
        fn.body.remove(d)
    # nested known closures are processed as functions of their own
    for s in ast.walk(fn):
      if s is not fn and isinstance(s, FUNC) and s.name not in closures:
        pass

  def expr_inline (self, fn, cls, closures):
    """helpers whose whole body is `return <expr>` are substituted as expressions wherever they are called
    (also inside comprehensions, lambdas and short-circuit operands)"""
    me = self
    class X(ast.NodeTransformer):
      def visit_FunctionDef (self_, n):
        return n if (n is not fn and closures.get(n.name) is n) else self_.generic_visit(n)
      def visit_Call (self_, n):
        self_.generic_visit(n)
        r = me.resolve(n, cls, closures)
        if r is None: return n
        h, recv, kind = r
        body = [b for b in h.body if not (isinstance(b, ast.Expr) and isinstance(b.value, ast.Constant))]
        if len(body) != 1 or not isinstance(body[0], ast.Return) or body[0].value is None: return n
        if h is fn: return n
        a = h.args
        ps = [x.arg for x in a.posonlyargs + a.args]
        if any(isinstance(x, ast.Starred) for x in n.args) or any(kw.arg is None for kw in n.keywords): return n
        actual = {}
        if kind == 'method':
          if not ps: return n
          actual[ps[0]] = recv; ps2 = ps[1:]
        else: ps2 = ps
        if len(n.args) > len(ps2): return n
        for p_, v in zip(ps2, n.args): actual[p_] = v
        for kw in n.keywords:
          if kw.arg not in ps2 or kw.arg in actual: return n
          actual[kw.arg] = kw.value
        defaults = dict(zip(reversed(ps), reversed(a.defaults)))
        for p_ in ps2:
          if p_ not in actual:
            if p_ not in defaults: return n
            actual[p_] = defaults[p_]
        expr = copy.deepcopy(body[0].value)
        # a non-trivial argument may be substituted only when the parameter is read exactly once
        for p_, v in actual.items():
          uses = sum(1 for x in ast.walk(expr) if isinstance(x, ast.Name) and x.id == p_)
          if not _simple(v) and uses > 1: return n
        # locals bound inside the expression (comprehension variables) must not capture argument names
        bound = set(x.id for x in ast.walk(expr) if isinstance(x, ast.Name) and isinstance(x.ctx, ast.Store))
        argnames = set(x.id for v in actual.values() for x in ast.walk(v) if isinstance(x, ast.Name))
        if bound & argnames: return n
        me.inlined.append((fn.name, h.name))
        return ast.copy_location(_Subst(dict(actual)).visit(expr), n)
    X().visit(fn)

  def block (self, stmts, cls, qual, depth, closures):
    out = []
    for s in stmts:
      if isinstance(s, FUNC):
        if s.name in closures and closures[s.name] is s: out.append(s); continue
        self.process(s, cls, qual + '.' + s.name, depth, closures); out.append(s); continue
      if isinstance(s, ast.ClassDef): out.append(s); continue
      for f in ('body', 'orelse', 'finalbody'):
        b = getattr(s, f, None)
        if isinstance(b, list) and b and isinstance(b[0], ast.stmt): setattr(s, f, self.block(b, cls, qual, depth, closures))
      if isinstance(s, ast.Try):
        for h in s.handlers: h.body = self.block(h.body, cls, qual, depth, closures)
      out += self.stmt(s, cls, qual, depth, closures)
    return out

  def _first_call (self, expr, cls, closures):
    """the first call to a new helper that is evaluated unconditionally in expr (not under a short-circuit
    right operand, conditional expression branch, lambda or comprehension)"""
    def walk (e):
      if isinstance(e, (ast.Lambda, ast.ListComp, ast.SetComp, ast.DictComp, ast.GeneratorExp)): return None
      if isinstance(e, ast.BoolOp): return walk(e.values[0])
      if isinstance(e, ast.IfExp): return walk(e.test)
      if isinstance(e, ast.Call):
        for c in ast.iter_child_nodes(e):
          r = walk(c)
          if r is not None: return r
        if self.resolve(e, cls, closures) is not None: return e
        return None
      for c in ast.iter_child_nodes(e):
        if isinstance(c, ast.expr):
          r = walk(c)
          if r is not None: return r
      return None
    return walk(expr)

  def stmt (self, s, cls, qual, depth, closures):
    if depth > 3: return [s]
    if isinstance(s, ast.Assign) and len(s.targets) == 1 and isinstance(s.targets[0], ast.Name) and isinstance(s.value, ast.BoolOp) \
       and any(self._first_call(v, cls, closures) is not None for v in s.value.values[1:]) and s.targets[0].id not in [x.id for v in s.value.values for x in ast.walk(v) if isinstance(x, ast.Name)]:
      # x = A and B and C   ==   x = A; if x: x = B; if x: x = C        (or: `if not x`)   - lets the helper call be hoisted
      nm = s.targets[0].id; is_and = isinstance(s.value.op, ast.And)
      out = self.stmt(ast.copy_location(ast.Assign(targets=[ast.Name(id=nm, ctx=ast.Store())], value=s.value.values[0], lineno=s.lineno), s), cls, qual, depth, closures)
      for v in s.value.values[1:]:
        test = ast.Name(id=nm, ctx=ast.Load()) if is_and else ast.UnaryOp(op=ast.Not(), operand=ast.Name(id=nm, ctx=ast.Load()))
        inner = self.stmt(ast.copy_location(ast.Assign(targets=[ast.Name(id=nm, ctx=ast.Store())], value=v, lineno=s.lineno), s), cls, qual, depth, closures)
        out.append(ast.copy_location(ast.If(test=test, body=inner, orelse=[]), s))
      for o in out: ast.fix_missing_locations(o)
      return out
    if isinstance(s, ast.If) and isinstance(s.test, ast.BoolOp) and isinstance(s.test.op, ast.And) and not s.orelse:
      # if A and B: X   ==   if A: if B: X      (lets a helper call in B be hoisted)
      later = s.test.values[1:]
      if any(self._first_call(v, cls, closures) is not None for v in later):
        inner = ast.copy_location(ast.If(test=later[0] if len(later) == 1 else ast.copy_location(ast.BoolOp(op=ast.And(), values=later), s.test), body=s.body, orelse=[]), s)
        s.test = s.test.values[0]
        s.body = self.stmt(inner, cls, qual, depth, closures)
    if isinstance(s, ast.If) and isinstance(s.test, ast.BoolOp) and isinstance(s.test.op, ast.Or) and not s.orelse and len(s.body) <= 3 \
       and not any(isinstance(x, FUNC + (ast.ClassDef, ast.Lambda)) for b_ in s.body for x in ast.walk(b_)):
      # if A or B: X   ==   if A: X  else: if B: X      (X is small and is copied; lets a helper call in B be hoisted)
      later = s.test.values[1:]
      if any(self._first_call(v, cls, closures) is not None for v in later):
        inner = ast.copy_location(ast.If(test=later[0] if len(later) == 1 else ast.copy_location(ast.BoolOp(op=ast.Or(), values=later), s.test), body=copy.deepcopy(s.body), orelse=[]), s)
        s.test = s.test.values[0]
        s.orelse = self.stmt(inner, cls, qual, depth, closures)
        for o in s.orelse: ast.fix_missing_locations(o)
    # which expression of the statement is evaluated first?
    if isinstance(s, (ast.Expr, ast.Return, ast.Assign, ast.AugAssign, ast.AnnAssign)): holder, field = s, 'value'
    elif isinstance(s, ast.If): holder, field = s, 'test'
    elif isinstance(s, (ast.For, ast.AsyncFor)): holder, field = s, 'iter'
    elif isinstance(s, ast.Assert): holder, field = s, 'test'
    else: return [s]
    expr = getattr(holder, field)
    if expr is None: return [s]
    out_pre = []
    # a helper call inside an assignment target: helper(x).attr = v   (v simple, so hoisting the call keeps the order)
    if isinstance(s, (ast.Assign, ast.AugAssign)) and _simple(s.value) and self._first_call(s.value, cls, closures) is None:
      tgs = s.targets if isinstance(s, ast.Assign) else [s.target]
      for tg in tgs:
        if isinstance(tg, (ast.Attribute, ast.Subscript)) and isinstance(tg.value, ast.Call) and self.resolve(tg.value, cls, closures) is not None:
          call = tg.value
          h, recv, kind = self.resolve(call, cls, closures)
          try:
            pre, retname = self.expand(call, h, recv, kind, cls, qual, depth, closures, tail=False, want_value=True)
          except NotInlinable:
            self.skip.add(id(call)); continue
          self.inlined.append((qual, h.name))
          out_pre += pre
          tg.value = ast.copy_location(ast.Name(id=retname, ctx=ast.Load()), call)
    for _ in range(6):
      call = self._first_call(expr, cls, closures)
      if call is None: break
      h, recv, kind = self.resolve(call, cls, closures)
      tail = isinstance(s, ast.Return) and expr is call
      discard = isinstance(s, ast.Expr) and expr is call
      try:
        pre, retname = self.expand(call, h, recv, kind, cls, qual, depth, closures, tail=tail, want_value=not discard)
      except NotInlinable:
        self.skip.add(id(call)); break
      self.inlined.append((qual, h.name))
      if tail: return out_pre + pre
      out_pre += pre
      if discard: return out_pre
      repl = ast.copy_location(ast.Name(id=retname, ctx=ast.Load()), call)
      if expr is call: expr = repl
      else:
        class R(ast.NodeTransformer):
          def visit_Call (self_, n):
            if n is call: return repl
            return self_.generic_visit(n)
        expr = R().visit(expr)
      setattr(holder, field, expr)
    return out_pre + [s]

  def expand (self, call, h, recv, kind, cls, qual, depth, closures, tail, want_value):
    self.counter += 1; k = self.counter
    body = copy.deepcopy(h.body)
    # drop docstring
    if body and isinstance(body[0], ast.Expr) and isinstance(body[0].value, ast.Constant) and isinstance(body[0].value.value, str): body = body[1:]
    a = h.args
    ps = [x.arg for x in a.posonlyargs + a.args]
    decos = [d.id if isinstance(d, ast.Name) else getattr(d, 'attr', None) for d in h.decorator_list]
    actual = {}
    args = list(call.args)
    if any(isinstance(x, ast.Starred) for x in args) or any(kw.arg is None for kw in call.keywords): raise NotInlinable("star args")
    if kind == 'method':
      if not ps: raise NotInlinable("no self")
      actual[ps[0]] = recv; ps2 = ps[1:]
    else: ps2 = ps
    if len(args) > len(ps2): raise NotInlinable("too many args")
    for p, v in zip(ps2, args): actual[p] = v
    for kw in call.keywords:
      if kw.arg in actual or kw.arg not in ps2 + [x.arg for x in a.kwonlyargs]: raise NotInlinable("bad keyword")
      actual[kw.arg] = kw.value
    defaults = dict(zip(reversed(ps), reversed(a.defaults)))
    for x, d in zip(a.kwonlyargs, a.kw_defaults):
      if d is not None: defaults[x.arg] = d
    for p in ps2 + [x.arg for x in a.kwonlyargs]:
      if p not in actual:
        if p not in defaults: raise NotInlinable("missing argument")
        actual[p] = defaults[p]
    # substitution map: parameters never stored to and bound to simple expressions are substituted, others get a renamed local
    stored = set(n.id for n in own_nodes(h) if isinstance(n, ast.Name) and isinstance(n.ctx, (ast.Store, ast.Del)))
    m = {}; pre = []
    for p, v in actual.items():
      if p not in stored and _simple(v): m[p] = v
      elif p in stored and isinstance(v, ast.Name) and self._dead_after(call, v.id):
        # the helper rebinds its parameter, and the caller never looks at the argument variable again: the helper's variable *is* the caller's
        m[p] = v.id
      else:
        nm = "%s__%s" % (h.name.strip('_'), p)
        m[p] = nm
        pre.append(ast.copy_location(ast.Assign(targets=[ast.Name(id=nm, ctx=ast.Store())], value=v, lineno=call.lineno), call))
    imported = set()
    for n in own_nodes(h):
      if isinstance(n, (ast.Import, ast.ImportFrom)):
        for al in n.names: imported.add((al.asname or al.name).split('.')[0])
      elif isinstance(n, FUNC + (ast.ClassDef,)): imported.add(n.name)
    for nm in local_names(h) - set(params_of(h)) - imported:
      # a local that carries a name the calling function used to have itself (its body was moved into the helper) keeps
      # that name, provided the caller does not use it any more
      keep = getattr(self, 'cur_known', set()); taken = getattr(self, 'cur_taken', set())
      if nm in keep and nm not in taken:
        m[nm] = nm; self.cur_claimed.add(nm)
      else:
        m[nm] = "%s__%s" % (h.name.strip('_'), nm)
    body = [_Subst(m).visit(s) for s in body]
    # a parameter that was a constant attribute name: getattr(x, 'name') is x.name
    body = [_FoldAttr().visit(s) for s in body]
    ret = ("%s__ret%d" % (h.name.strip('_'), k)) if want_value and not tail else None
    done = "%s__done%d" % (h.name.strip('_'), k)
    if tail:
      if _falls(body): body = body + [ast.copy_location(ast.Return(value=ast.Constant(value=None)), call)]
    else:
      body = _elim(body, [], ret, done)
      if sum(1 for x in body for _ in ast.walk(x) if isinstance(_, ast.stmt)) > 600: raise NotInlinable("too large after return elimination")
      if ret is not None and not _always_assigns(body, ret):
        # value when the helper falls off its end
        body = [_mk_assign(ret, ast.Constant(value=None), call)] + body
    # nested inlining inside the helper body
    hq = '?new?' + h.name
    body = self.block(body, cls, hq, depth + 1, closures)
    for s in body: ast.fix_missing_locations(s)
    return pre + body, ret

def _split_tuple_returns (fn):
  """N7: an inlined helper that returns either None or an n-tuple, whose result the caller unpacks (`a, b = T`) after testing `T is None`:
  the elements are bound where the tuple was built and the unpack disappears.  A tuple element that is one of the helper's own
  (prefixed) locals simply takes the caller's name.  (`T` itself stays as the None / not-None marker.)"""
  import re as _re
  temps = set(n.id for n in ast.walk(fn) if isinstance(n, ast.Name) and isinstance(n.ctx, ast.Store) and _re.search(r'__ret\d+$', n.id))
  for T in sorted(temps):
    assigns = [a for a in ast.walk(fn) if isinstance(a, ast.Assign) and len(a.targets) == 1 and isinstance(a.targets[0], ast.Name) and a.targets[0].id == T]
    tuples = [a for a in assigns if isinstance(a.value, ast.Tuple)]
    if not tuples or any(not (isinstance(a.value, ast.Tuple) or (isinstance(a.value, ast.Constant) and a.value.value is None)) for a in assigns): continue
    n = len(tuples[0].value.elts)
    if any(len(a.value.elts) != n or any(isinstance(e, ast.Starred) for e in a.value.elts) for a in tuples): continue
    unpacks = [a for a in ast.walk(fn) if isinstance(a, ast.Assign) and isinstance(a.value, ast.Name) and a.value.id == T and len(a.targets) == 1
               and isinstance(a.targets[0], ast.Tuple) and len(a.targets[0].elts) == n and all(isinstance(e, ast.Name) for e in a.targets[0].elts)]
    if len(unpacks) != 1: continue
    # every other read of T is a None test
    loads = [x for x in ast.walk(fn) if isinstance(x, ast.Name) and x.id == T and isinstance(x.ctx, ast.Load)]
    tests = [c for c in ast.walk(fn) if isinstance(c, ast.Compare) and isinstance(c.left, ast.Name) and c.left.id == T and len(c.ops) == 1 and isinstance(c.ops[0], (ast.Is, ast.IsNot))
             and isinstance(c.comparators[0], ast.Constant) and c.comparators[0].value is None]
    if len(loads) != len(tests) + 1: continue
    targets = [e.id for e in unpacks[0].targets[0].elts]
    if len(set(targets)) != n: continue
    # the caller's names must not be read between the construction of the tuple and the unpack: require them not to be read inside the
    # statements that build T (the inlined helper body) at all
    builders = set()
    for a in assigns:
      for x in ast.walk(fn):
        pass
    helper_prefix = T[:T.rindex('__ret')]
    helper_locals = set(x.id for x in ast.walk(fn) if isinstance(x, ast.Name) and x.id.startswith(helper_prefix + '__') and not _re.search(r'__(ret|done)\d+', x.id))
    ren = {}
    ok = True
    for a in tuples:
      for p_, e_ in zip(targets, a.value.elts):
        if isinstance(e_, ast.Name) and e_.id in helper_locals:
          if ren.get(e_.id, p_) != p_: ok = False
          ren[e_.id] = p_
    if not ok or len(set(ren.values())) != len(ren): continue
    # a caller name that the helper's code already reads (a parameter passed by name) cannot be taken over
    if any(isinstance(x, ast.Name) and x.id in ren.values() and isinstance(x.ctx, ast.Load) and any(x in list(ast.walk(a_)) for a_ in assigns) for x in ast.walk(fn)): continue
    class Ren(ast.NodeTransformer):
      def visit_Name (self, n_):
        if n_.id in ren: n_.id = ren[n_.id]
        return n_
    Ren().visit(fn)
    def rewrite (body):
      out = []
      for st in body:
        if st is unpacks[0]: continue
        if st in tuples:
          for p_, e_ in zip(targets, st.value.elts):
            if isinstance(e_, ast.Name) and e_.id == p_: continue
            out.append(ast.copy_location(ast.Assign(targets=[ast.Name(id=p_, ctx=ast.Store())], value=e_, lineno=st.lineno), st))
          out.append(ast.copy_location(ast.Assign(targets=[ast.Name(id=T, ctx=ast.Store())], value=ast.Constant(value=True), lineno=st.lineno), st))
          continue
        for fld in ('body', 'orelse', 'finalbody'):
          if hasattr(st, fld) and isinstance(getattr(st, fld), list) and not isinstance(st, FUNC): setattr(st, fld, rewrite(getattr(st, fld)) or [ast.copy_location(ast.Pass(), st)] if fld == 'body' else rewrite(getattr(st, fld)))
        if isinstance(st, ast.Try):
          for h in st.handlers: h.body = rewrite(h.body) or [ast.copy_location(ast.Pass(), st)]
        out.append(st)
      return out
    fn.body = rewrite(fn.body)
    ast.fix_missing_locations(fn)
    _direct_exits(fn, T)

def _direct_exits (fn, T):
  """after N7: `T` is only a marker (None / True) that the statement right behind the inlined body tests: `if T is None: <K>` with K
  ending in return / break / continue / raise.  Where every `T = None` sits in tail position of the inlined region, K takes its place
  and marker and test disappear - the early exits of the helper are the caller's early exits again."""
  import copy as _copy
  def is_none_assign (st): return isinstance(st, ast.Assign) and len(st.targets) == 1 and isinstance(st.targets[0], ast.Name) and st.targets[0].id == T and isinstance(st.value, ast.Constant) and st.value.value is None
  def is_true_assign (st): return isinstance(st, ast.Assign) and len(st.targets) == 1 and isinstance(st.targets[0], ast.Name) and st.targets[0].id == T and isinstance(st.value, ast.Constant) and st.value.value is True
  def mentions (st): return any(isinstance(x, ast.Name) and x.id == T for x in ast.walk(st))
  def tail_ok (body):
    # every marker assignment in `body` is the last statement of its branch, recursively through if/else only
    for i, st in enumerate(body):
      last = i == len(body) - 1
      if is_none_assign(st) or is_true_assign(st):
        if not last: return False
      elif isinstance(st, ast.If) and mentions(st):
        if not last or any(isinstance(x, ast.Name) and x.id == T for x in ast.walk(st.test)): return False
        if not tail_ok(st.body) or not tail_ok(st.orelse): return False
      elif mentions(st): return False
    return True
  def subst (body, K):
    out = []
    for st in body:
      if is_none_assign(st): out.extend(_copy.deepcopy(K)); continue
      if is_true_assign(st): continue
      if isinstance(st, ast.If) and mentions(st):
        st.body = subst(st.body, K) or [ast.copy_location(ast.Pass(), st)]
        st.orelse = subst(st.orelse, K)
      out.append(st)
    return out
  def walk (body):
    for i in range(len(body) - 1):
      S, tst = body[i], body[i + 1]
      if isinstance(tst, ast.If) and not tst.orelse and isinstance(tst.test, ast.Compare) and isinstance(tst.test.left, ast.Name) and tst.test.left.id == T and len(tst.test.ops) == 1 \
         and isinstance(tst.test.ops[0], ast.Is) and isinstance(tst.test.comparators[0], ast.Constant) and tst.test.comparators[0].value is None \
         and tst.body and isinstance(tst.body[-1], (ast.Return, ast.Break, ast.Continue, ast.Raise)) and not any(mentions(k) for k in tst.body) \
         and isinstance(S, ast.If) and mentions(S) and tail_ok([S]):
        # T must not be used anywhere else
        total = sum(1 for x in ast.walk(fn) if isinstance(x, ast.Name) and x.id == T)
        here = sum(1 for x in ast.walk(S) if isinstance(x, ast.Name) and x.id == T) + 1
        if total != here: continue
        new = subst([S], tst.body)
        body[i:i + 2] = new
        return True
    for st in body:
      for fld in ('body', 'orelse', 'finalbody'):
        sub = getattr(st, fld, None)
        if isinstance(sub, list) and not isinstance(st, FUNC) and walk(sub): return True
      if isinstance(st, ast.Try):
        for h in st.handlers:
          if walk(h.body): return True
    return False
  walk(fn.body)
  ast.fix_missing_locations(fn)

def _always_assigns (body, name):
  """does every fall-through path of body assign name? (structural approximation)"""
  for s in body:
    if isinstance(s, ast.Assign) and any(isinstance(t, ast.Name) and t.id == name for t in s.targets): return True
    if isinstance(s, ast.If) and s.orelse and _always_assigns(s.body, name) and _always_assigns(s.orelse, name): return True
  return False

# ---------------------------------------------------------------- N3 expand new temporaries
PURE_FUNCS = {'len', 'isinstance', 'getattr', 'hasattr', 'min', 'max', 'int', 'bool', 'ord', 'type', 'tuple', 'abs', 'str', 'bytes', 'frozenset', 'sum', 'any', 'all', 'range', 'callable', 'issubclass'}
PURE_METHODS = {'get', 'startswith', 'endswith', 'keys', 'values', 'items', 'copy', 'calcsize', 'find', 'count', 'index', 'lower', 'upper', 'strip', 'split', 'join', 'isdigit', 'pack', 'unpack', 'unpack_from', 'is_set'}

def _pure (e, strict=True):
  for n in ast.walk(e):
    if isinstance(n, (ast.Lambda, ast.Yield, ast.YieldFrom, ast.Await, ast.NamedExpr)): return False
    if isinstance(n, (ast.ListComp, ast.SetComp, ast.DictComp, ast.GeneratorExp)): return False
    if isinstance(n, (ast.List, ast.Dict, ast.Set)): return False        # a fresh mutable object has identity
    if isinstance(n, ast.Call):
      f = n.func
      if isinstance(f, ast.Name) and f.id in PURE_FUNCS: continue
      if isinstance(f, ast.Attribute) and f.attr in PURE_METHODS and not strict: continue
      if isinstance(f, ast.Attribute) and f.attr in ('get', 'calcsize', 'startswith', 'endswith', 'keys', 'values', 'items', 'isdigit', 'is_set'): continue
      return False
  return True

def _reads (e):
  """(names, heap texts) read by e"""
  names = set(); heap = set()
  for n in ast.walk(e):
    if isinstance(n, ast.Name): names.add(n.id)
    elif isinstance(n, (ast.Attribute, ast.Subscript)): heap.add(_base_text(n))
  return names, heap

def _base_text (n):
  # text of the attribute chain without subscripts' indices: self.buf[offset] -> self.buf
  while isinstance(n, ast.Subscript): n = n.value
  try: return ast.unparse(n)
  except Exception: return '?'

def _stmt_effects (s):
  """(names stored, heap texts stored, has impure call) of one *simple* statement or of a compound's header"""
  names = set(); heap = set(); call = False
  def tgt (t):
    if isinstance(t, ast.Name): names.add(t.id)
    elif isinstance(t, (ast.Tuple, ast.List)):
      for e in t.elts: tgt(e)
    elif isinstance(t, ast.Starred): tgt(t.value)
    elif isinstance(t, (ast.Attribute, ast.Subscript)): heap.add(_base_text(t))
  if isinstance(s, ast.Assign):
    for t in s.targets: tgt(t)
  elif isinstance(s, (ast.AugAssign, ast.AnnAssign)): tgt(s.target)
  elif isinstance(s, (ast.For, ast.AsyncFor)): tgt(s.target)
  elif isinstance(s, (ast.With, ast.AsyncWith)):
    for i in s.items:
      if i.optional_vars is not None: tgt(i.optional_vars)
  elif isinstance(s, ast.Delete):
    for t in s.targets: tgt(t)
  elif isinstance(s, (ast.Import, ast.ImportFrom)):
    for al in s.names: names.add((al.asname or al.name).split('.')[0])
  elif isinstance(s, FUNC + (ast.ClassDef,)): names.add(s.name)
  return names, heap

def _header_exprs (s):
  if isinstance(s, ast.If) or isinstance(s, ast.While): return [s.test]
  if isinstance(s, (ast.For, ast.AsyncFor)): return [s.iter]
  if isinstance(s, (ast.With, ast.AsyncWith)): return [i.context_expr for i in s.items]
  if isinstance(s, ast.Try) or isinstance(s, FUNC + (ast.ClassDef,)): return []
  return [c for c in ast.iter_child_nodes(s) if isinstance(c, ast.expr)]

LOGGING = ('debug', 'info', 'warn', 'warning', 'error', 'exception', 'critical', 'log')
LOG_ANY_RECEIVER = ('msg', 'err', 'info', 'debug', 'warn', 'warning', 'error', 'exception')   # Connection.msg/err/info, logger methods
def _impure_call_in (exprs):
  for e in exprs:
    for n in ast.walk(e):
      if isinstance(n, ast.Call):
        f = n.func
        if isinstance(f, ast.Attribute) and f.attr in LOGGING and _base_text(f.value).split('.')[-1] in ('log', 'logger', 'logging'): continue
        if isinstance(f, ast.Attribute) and f.attr in LOG_ANY_RECEIVER: continue
        if isinstance(f, ast.Attribute) and (f.attr.startswith('is_') or f.attr.startswith('has_') or (f.attr.startswith('is') and f.attr[2:3].isupper()) or (f.attr.startswith('has') and f.attr[3:4].isupper())): continue   # predicates
        if isinstance(f, ast.Name) and f.id == 'print': continue
        if isinstance(f, ast.Name) and f.id in PURE_FUNCS: continue
        if isinstance(f, ast.Attribute) and f.attr in PURE_METHODS: continue
        return True
  return False

def _linear (fn):
  """statements of fn's own scope in source order with (stmt, depth-path of enclosing loops)"""
  out = []
  def walk (body, loops):
    for s in body:
      out.append((s, tuple(loops)))
      if isinstance(s, FUNC + (ast.ClassDef,)): continue
      inner = loops + [s] if isinstance(s, (ast.For, ast.While, ast.AsyncFor)) else loops
      for f in ('body', 'orelse', 'finalbody'):
        b = getattr(s, f, None)
        if isinstance(b, list) and b and isinstance(b[0], ast.stmt): walk(b, inner if f == 'body' else loops)
      if isinstance(s, ast.Try):
        for h in s.handlers: walk(h.body, loops)
  walk(fn.body, [])
  return out

def _adjacent (fn, known_locals):
  """t = e ; <simple statement using t>  with t new and not read anywhere else  ->  use e directly
  (works for names assigned several times, e.g. a result temporary before each return)"""
  params = set(params_of(fn)); n = 0
  loads = {}
  for x in ast.walk(fn):
    if isinstance(x, ast.Name) and isinstance(x.ctx, ast.Load): loads[x.id] = loads.get(x.id, 0) + 1
  # a name qualifies only if EVERY read of it sits in the statement right after an assignment to it (same block)
  paired = {}
  def scan (body):
    for i, s in enumerate(body):
      if not isinstance(s, SCOPES):
        for f in ('body', 'orelse', 'finalbody'):
          b = getattr(s, f, None)
          if isinstance(b, list) and b and isinstance(b[0], ast.stmt): scan(b)
        if isinstance(s, ast.Try):
          for h in s.handlers: scan(h.body)
      if isinstance(s, ast.Assign) and len(s.targets) == 1 and isinstance(s.targets[0], ast.Name) and i + 1 < len(body):
        t = s.targets[0].id; u = body[i + 1]
        if isinstance(u, (ast.Return, ast.Expr, ast.Assign, ast.AugAssign, ast.If, ast.Assert, ast.Raise)):
          k = sum(1 for h in _header_exprs(u) for x in ast.walk(h) if isinstance(x, ast.Name) and x.id == t and isinstance(x.ctx, ast.Load))
          paired[t] = paired.get(t, 0) + k
  scan(fn.body)
  foldable = set(t for t, k in paired.items() if k == loads.get(t, 0))
  def walk (body):
    nonlocal n
    i = 0
    while i < len(body):
      s = body[i]
      if not isinstance(s, SCOPES):
        for f in ('body', 'orelse', 'finalbody'):
          b = getattr(s, f, None)
          if isinstance(b, list) and b and isinstance(b[0], ast.stmt): walk(b)
        if isinstance(s, ast.Try):
          for h in s.handlers: walk(h.body)
      if isinstance(s, ast.Assign) and len(s.targets) == 1 and isinstance(s.targets[0], ast.Name) and i + 1 < len(body):
        t = s.targets[0].id; u = body[i + 1]
        if t not in known_locals and t not in params and isinstance(u, (ast.Return, ast.Expr, ast.Assign, ast.AugAssign, ast.If, ast.Assert, ast.Raise)):
          hs = _header_exprs(u)
          uses = [x for h in hs for x in ast.walk(h) if isinstance(x, ast.Name) and x.id == t and isinstance(x.ctx, ast.Load)]
          stores_t = isinstance(u, (ast.Assign, ast.AugAssign)) and t in _stmt_effects(u)[0]
          if len(uses) == 1 and not stores_t and not any(isinstance(x, (ast.Yield, ast.YieldFrom, ast.Await, ast.Lambda)) for x in ast.walk(s.value)):
            # every other read of t must be such an adjacent read of another assignment: approximate by
            # requiring as many loads as assignments of t in the function
            ndefs = sum(1 for x in ast.walk(fn) if isinstance(x, ast.Name) and x.id == t and isinstance(x.ctx, ast.Store))
            if t in foldable and loads.get(t, 0) <= ndefs and (_pure(s.value) or all(_pure_except(h, uses[0]) for h in hs)):
              _replace_name(u, [h for h in hs if any(x is uses[0] for x in ast.walk(h))][0], uses[0], s.value)
              del body[i]; n += 1
              continue
      i += 1
  walk(fn.body)
  return n

def _pure_except (expr, hole):
  """is everything in expr evaluated before `hole` side-effect free (so moving an impure value into the hole keeps order)?"""
  class Z(ast.NodeTransformer):
    def visit_Name (self, n): return ast.Constant(value=0) if n is hole else n
  return _pure(Z().visit(copy.deepcopy(expr))) if not any(x is hole for x in ast.walk(expr)) else _pure_without(expr, hole)

def _pure_without (expr, hole):
  for n in ast.walk(expr):
    if n is hole: continue
    if isinstance(n, (ast.Lambda, ast.Yield, ast.YieldFrom, ast.Await, ast.NamedExpr)): return False
    if isinstance(n, ast.Call):
      f = n.func
      if isinstance(f, ast.Name) and f.id in PURE_FUNCS: continue
      if isinstance(f, ast.Attribute) and f.attr in PURE_METHODS: continue
      return False
  return True

_CFG_CACHE = {}
def _between_cfg (fn, ds, us):
  """[(kind, ast)] of everything that can execute on a control-flow path from statement ds to statement us
  (kinds: 'stmt' simple statement, 'expr' a test expression, 'for' loop target binding); None if unavailable"""
  try:
    from .cfg import CFG
    key = id(fn)
    ent = _CFG_CACHE.get(key)
    if ent is None or ent[0] is not fn or ent[2] != sum(1 for _ in ast.walk(fn)):
      g = CFG(fn); ent = (fn, g, sum(1 for _ in ast.walk(fn))); _CFG_CACHE.clear(); _CFG_CACHE[key] = ent
    g = ent[1]
    dn = [n for n in g.nodes if n.ast is ds]
    if isinstance(us, (ast.For, ast.AsyncFor)):
      un = [n for n in g.nodes if n.stmt is us and n.label == 'for-iter']      # the iterable is evaluated once, before the loop
    else:
      un = [n for n in g.nodes if n.ast is us or (n.stmt is us and n.kind in ('cond', 'stmt'))]
    if not dn or not un: return None
    dn = dn[0]
    fwd = g.reachable(dn, avoid=[dn])
    # backward reachability from the use, not through the definition
    bwd = set(un); st = list(un)
    while st:
      x = st.pop()
      for p_, l_ in x.pred:
        if p_ is dn or p_ in bwd: continue
        bwd.add(p_); st.append(p_)
    out = []
    for n in fwd & bwd:
      if n is dn or n in un or n.ast is None: continue
      if n.kind in ('stmt', 'return', 'raise_stmt'):
        if isinstance(n.ast, ast.stmt): out.append(('stmt', n.ast))
        else: out.append(('expr', n.ast))
      elif n.kind == 'cond': out.append(('expr', n.ast))
      elif n.kind == 'for': out.append(('for', n.ast))
      elif n.kind == 'handler': pass
    return out
  except Exception:
    return None

def expand_temps (fn, known_locals):
  """copy-propagate new single-assignment temporaries; returns number of uses replaced"""
  pre = _adjacent(fn, known_locals)
  lin = _linear(fn)
  params = set(params_of(fn))
  defs = {}
  banned = set()
  for n in own_nodes(fn):
    if isinstance(n, (ast.Global, ast.Nonlocal)): banned.update(n.names)
  for idx, (s, loops) in enumerate(lin):
    names, heap = _stmt_effects(s)
    for nm in names: defs.setdefault(nm, []).append(idx)
  # names bound in nested scopes cannot be propagated safely
  for n in ast.walk(fn):
    if n is not fn and isinstance(n, SCOPES):
      for x in ast.walk(n):
        if isinstance(x, ast.Name) and isinstance(x.ctx, ast.Store): banned.add(x.id)
        if isinstance(x, ast.arg): banned.add(x.arg)
  total = 0
  fn_locals_ = local_names(fn)
  for nm, idxs in sorted(defs.items(), key=lambda kv: -kv[1][0]):
    if nm in known_locals or nm in params or nm in banned or len(idxs) != 1: continue
    di = idxs[0]; ds, dloops = lin[di]
    if not (isinstance(ds, ast.Assign) and len(ds.targets) == 1 and isinstance(ds.targets[0], ast.Name)): continue
    e = ds.value
    strictly_pure = _pure(e)
    rnames, rheap = _reads(e)
    robjs = set()
    for x_ in ast.walk(e):
      if isinstance(x_, ast.Call):
        for a_ in x_.args:
          if isinstance(a_, ast.Name): robjs.add(a_.id)
      elif isinstance(x_, (ast.Subscript, ast.Attribute)) and isinstance(x_.value, ast.Name): robjs.add(x_.value.id)
    robjs -= {'self', 'cls'}
    if nm in rnames: continue
    # uses
    uses = []
    for ui, (us, uloops) in enumerate(lin):
      for he in _header_exprs(us):
        for x in ast.walk(he):
          if isinstance(x, ast.Name) and x.id == nm and isinstance(x.ctx, ast.Load): uses.append((ui, us, uloops, x, he))
    # uses in nested scopes (closures) block expansion
    nested_use = False
    for n in ast.walk(fn):
      if n is not fn and isinstance(n, FUNC + (ast.Lambda, ast.ClassDef)):
        if any(isinstance(x, ast.Name) and x.id == nm for x in ast.walk(n)): nested_use = True
      elif isinstance(n, (ast.ListComp, ast.SetComp, ast.DictComp, ast.GeneratorExp)):
        # usable inside a comprehension unless the comprehension rebinds a name the expression reads
        bound_ = set(x.id for g_ in n.generators for x in ast.walk(g_.target) if isinstance(x, ast.Name))
        if any(isinstance(x, ast.Name) and x.id == nm for x in ast.walk(n)) and (bound_ & rnames): nested_use = True
    if nested_use or not uses: continue
    if not strictly_pure:
      # an impure right-hand side may only move to a single use in the very next statement (e.g. rv = f(x); return rv)
      if len(uses) != 1 or uses[0][0] != di + 1 or uses[0][2] != dloops: continue
      if isinstance(uses[0][1], (ast.While, ast.For)): continue
      if any(isinstance(x, (ast.Yield, ast.YieldFrom, ast.Await, ast.Lambda)) for x in ast.walk(e)): continue
      # evaluation order: the use must be the first thing evaluated that can have an effect - require the other
      # sub-expressions of the using statement to be pure
      others_ok = all(_pure(h) for h in _header_exprs(uses[0][1]))
      if not others_ok: continue
    replaced = 0
    for ui, us, uloops, x, he in uses:
      if ui <= di: continue
      if uloops[:len(dloops)] != dloops: continue           # use must be inside every loop that encloses the def
      ok = True
      flow = _between_cfg(fn, ds, us)
      alias = isinstance(e, ast.Attribute) and _simple(e) and not any(isinstance(x, (ast.Subscript, ast.Call)) for x in ast.walk(e))
      if flow is not None and alias:
        # the temporary is another name for the object an attribute holds: mutating that object (through either name) does
        # not matter, only re-binding the attribute does - directly, or possibly inside a call on the same receiver
        etxt = _base_text(e); root = etxt.split('.')[0]
        for kind, a_ in flow:
          if kind == 'stmt':
            if isinstance(a_, ast.Raise): continue
            tg_ = []
            if isinstance(a_, ast.Assign): tg_ = a_.targets
            elif isinstance(a_, (ast.AugAssign, ast.AnnAssign)): tg_ = [a_.target]
            elif isinstance(a_, ast.Delete): tg_ = a_.targets
            for t_ in tg_:
              for tx_ in ([t_] if not isinstance(t_, (ast.Tuple, ast.List)) else t_.elts):
                if isinstance(tx_, ast.Attribute) and (ast.unparse(tx_) == etxt or etxt.startswith(ast.unparse(tx_) + '.')): ok = False
                if isinstance(tx_, ast.Name) and tx_.id in rnames: ok = False
            hx = _header_exprs(a_)
          elif kind == 'for':
            sn, sh = _stmt_effects(a_)
            if sn & rnames: ok = False
            hx = []
          else: hx = [a_]
          for h_ in hx:
            for c_ in ast.walk(h_):
              if isinstance(c_, ast.Call) and isinstance(c_.func, ast.Attribute):
                rcv = _base_text(c_.func.value)
                if rcv.split('.')[0] == root and rcv != etxt and not rcv.startswith(etxt + '.') and not _impure_call_in([c_]) is False:
                  if _impure_call_in([c_]): ok = False
              if isinstance(c_, ast.Call) and _impure_call_in([c_]):
                # the owner of the attribute handed to an unknown call, or a call through a local variable (possibly a bound
                # method of the owner): either may re-bind the attribute
                for a2 in list(c_.args) + [k_.value for k_ in c_.keywords]:
                  b2 = a2.value if isinstance(a2, ast.Starred) else a2
                  if isinstance(b2, (ast.Name, ast.Attribute)) and _base_text(b2).split('.')[0] == root and not (_base_text(b2) == etxt or _base_text(b2).startswith(etxt + '.')): ok = False
                if isinstance(c_.func, ast.Name) and c_.func.id in fn_locals_: ok = False
          if not ok: break
        if not ok: continue
      elif flow is not None:
        # what can execute on some control-flow path from the definition to the use
        for kind, a_ in flow:
          if kind == 'stmt':
            if isinstance(a_, ast.Raise): continue
            sn, sh = _stmt_effects(a_)
            hx = _header_exprs(a_)
          elif kind == 'for':
            sn, sh = _stmt_effects(a_); hx = []
          else:
            sn, sh = set(), set(); hx = [a_]
          if sn & rnames: ok = False; break
          if rheap:
            if any(_overlap(a, b) for a in sh for b in rheap): ok = False; break
            if _impure_call_in(hx): ok = False; break
          # objects the expression looks into (len(x), x[i], x.attr): a method call on them, or handing them to an
          # unknown call, may change what the expression sees
          if robjs and _touches(hx, robjs): ok = False; break
          if robjs and any(a.split('.')[0].split('[')[0] in robjs for a in sh): ok = False; break
        if not ok: continue
      else:
        # statements between def and use; plus whole bodies of loops entered after the def that contain the use
        between = list(range(di + 1, ui))
        for L in uloops[len(dloops):]:
          for j, (s2, l2) in enumerate(lin):
            if L in l2: between.append(j)
        for j in set(between):
          s2 = lin[j][0]
          if isinstance(s2, ast.Raise): continue          # control leaves: nothing after it is reached through it
          sn, sh = _stmt_effects(s2)
          if sn & rnames: ok = False; break
          if rheap:
            if any(_overlap(a, b) for a in sh for b in rheap): ok = False; break
            if _impure_call_in(_header_exprs(s2)): ok = False; break
        if not ok: continue
      _replace_name(us, he, x, e)
      replaced += 1
    if replaced == len(uses):
      # the assignment is dead now
      ds._pxa_dead = True
    total += replaced
  if total: _drop_dead(fn)
  return total + pre

# calls that build something new from their arguments without changing them (they are not `pure`: the result has identity)
NONMUTATING = {'enumerate', 'zip', 'sorted', 'list', 'set', 'dict', 'hex', 'chr', 'repr', 'reversed', 'bytearray', 'float', 'round', 'divmod', 'id', 'hash'}
NONMUTATING_QUAL = {('array', 'array'), ('struct', 'pack'), ('struct', 'unpack'), ('struct', 'unpack_from'), ('struct', 'calcsize'), ('time', 'time')}

def _touches (exprs, names):
  """does some call in exprs invoke a (non-pure) method on one of `names`, or pass one of them to a non-pure call?"""
  for e in exprs:
    for n in ast.walk(e):
      if isinstance(n, ast.Call):
        f = n.func
        if isinstance(f, ast.Attribute) and isinstance(f.value, ast.Name) and f.value.id in names and f.attr not in PURE_METHODS and f.attr not in LOG_ANY_RECEIVER: return True
        if _impure_call_in([n]):
          if isinstance(f, ast.Name) and f.id in NONMUTATING: continue
          if isinstance(f, ast.Attribute) and isinstance(f.value, ast.Name) and (f.value.id, f.attr) in NONMUTATING_QUAL: continue
          for a in list(n.args) + [k.value for k in n.keywords]:
            if isinstance(a, ast.Name) and a.id in names: return True
  return False

def _overlap (a, b): return a == b or a.startswith(b + '.') or b.startswith(a + '.') or a.startswith(b + '[') or b.startswith(a + '[')

def _replace_name (stmt, holder_expr, name_node, e):
  new = copy.deepcopy(e)
  class R(ast.NodeTransformer):
    def visit_Name (self, n): return ast.copy_location(copy.deepcopy(e), n) if n is name_node else n
  for f, v in ast.iter_fields(stmt):
    if v is holder_expr:
      setattr(stmt, f, R().visit(v)); return
    if isinstance(v, list):
      for i, it in enumerate(v):
        if it is holder_expr: v[i] = R().visit(it); return
        if isinstance(it, ast.withitem) and it.context_expr is holder_expr: it.context_expr = R().visit(holder_expr); return

def _drop_dead (fn):
  # safety net: a definition is dropped only if no read of its name is left anywhere in the function
  left = set(x.id for x in ast.walk(fn) if isinstance(x, ast.Name) and isinstance(x.ctx, ast.Load))
  for st_ in ast.walk(fn):
    if getattr(st_, '_pxa_dead', False) and isinstance(st_, ast.Assign) and isinstance(st_.targets[0], ast.Name) and st_.targets[0].id in left: st_._pxa_dead = False
  def walk (body):
    out = []
    for s in body:
      if getattr(s, '_pxa_dead', False): continue
      if not isinstance(s, FUNC + (ast.ClassDef,)):
        for f in ('body', 'orelse', 'finalbody'):
          b = getattr(s, f, None)
          if isinstance(b, list) and b and isinstance(b[0], ast.stmt):
            nb = walk(b)
            setattr(s, f, nb if nb or f != 'body' else [ast.copy_location(ast.Pass(), s)])
        if isinstance(s, ast.Try):
          for h in s.handlers: h.body = walk(h.body) or [ast.Pass()]
      out.append(s)
    return out
  fn.body = walk(fn.body) or [ast.Pass()]


# ---------------------------------------------------------------- N4 unroll loops over literal name tuples
class _FoldAttr(ast.NodeTransformer):
  def visit_Call (self, n):
    self.generic_visit(n)
    # 'get_' + 'nw_src' (a constant argument substituted into a name built by concatenation) is the constant 'get_nw_src'
    if isinstance(n.func, ast.Name) and n.func.id in ('getattr', 'setattr', 'hasattr') and len(n.args) >= 2 and isinstance(n.args[1], ast.BinOp) and isinstance(n.args[1].op, ast.Add) \
       and isinstance(n.args[1].left, ast.Constant) and isinstance(n.args[1].right, ast.Constant) and isinstance(n.args[1].left.value, str) and isinstance(n.args[1].right.value, str):
      n.args[1] = ast.copy_location(ast.Constant(value=n.args[1].left.value + n.args[1].right.value), n.args[1])
    if isinstance(n.func, ast.Name) and n.func.id == 'getattr' and len(n.args) == 2 and not n.keywords \
       and isinstance(n.args[1], ast.Constant) and isinstance(n.args[1].value, str) and n.args[1].value.isidentifier():
      return ast.copy_location(ast.Attribute(value=n.args[0], attr=n.args[1].value, ctx=ast.Load()), n)
    return n
  def visit_Expr (self, n):
    self.generic_visit(n)
    c = n.value
    if isinstance(c, ast.Call) and isinstance(c.func, ast.Name) and c.func.id == 'setattr' and len(c.args) == 3 and not c.keywords \
       and isinstance(c.args[1], ast.Constant) and isinstance(c.args[1].value, str) and c.args[1].value.isidentifier():
      return ast.copy_location(ast.Assign(targets=[ast.Attribute(value=c.args[0], attr=c.args[1].value, ctx=ast.Store())], value=c.args[2], lineno=n.lineno), n)
    return n

def _continue_to_structured (stmts):
  """`if c: continue` + rest  ->  if c: pass else: rest   (continue acts as the exit of one unrolled iteration);
  real `return` statements are parked as placeholders while the continues are eliminated"""
  parked = {}
  class Park(ast.NodeTransformer):
    def visit_Return (self, n):
      k = '__pxa_parked_%d' % len(parked); parked[k] = n
      return ast.copy_location(ast.Global(names=[k]), n)
    def visit_FunctionDef (self, n): return n
    def visit_Lambda (self, n): return n
  class C2R(ast.NodeTransformer):
    def visit_Continue (self, n): return ast.copy_location(ast.Return(value=None), n)
    def visit_For (self, n): return n
    def visit_While (self, n): return n
    def visit_FunctionDef (self, n): return n
    def visit_Lambda (self, n): return n
  class Unpark(ast.NodeTransformer):
    def visit_Global (self, n):
      if len(n.names) == 1 and n.names[0] in parked: return copy.deepcopy(parked[n.names[0]])
      return n
  body = [C2R().visit(Park().visit(s)) for s in stmts]
  body = _elim(body, [], None, '__unroll_done')
  return [Unpark().visit(s) for s in body]

def unroll_name_loops (fn, known_locals):
  n_un = 0
  def has (stmts, types):
    for s in stmts:
      for x in ([s] + list(own_nodes(s))) if not isinstance(s, SCOPES) else []:
        if isinstance(x, types): return True
    return False
  def walk (body):
    nonlocal n_un
    out = []
    for s in body:
      if not isinstance(s, SCOPES):
        for f in ('body', 'orelse', 'finalbody'):
          b = getattr(s, f, None)
          if isinstance(b, list) and b and isinstance(b[0], ast.stmt): setattr(s, f, walk(b))
        if isinstance(s, ast.Try):
          for h in s.handlers: h.body = walk(h.body)
      maps = None
      if isinstance(s, ast.For) and isinstance(s.target, ast.Name) and s.target.id not in known_locals and not s.orelse \
         and isinstance(s.iter, (ast.Tuple, ast.List)) and 0 < len(s.iter.elts) <= 40 and all(isinstance(e, ast.Constant) and isinstance(e.value, str) for e in s.iter.elts) \
         and any(isinstance(x, ast.Call) and isinstance(x.func, ast.Name) and x.func.id in ('getattr', 'setattr', 'hasattr') and len(x.args) >= 2 and isinstance(x.args[1], ast.Name) and x.args[1].id == s.target.id for b in s.body for x in ast.walk(b)):
        maps = [{s.target.id: e} for e in s.iter.elts]
      elif isinstance(s, ast.For) and not s.orelse:
        maps = _table_loop_maps(s, out[-1] if out else None, known_locals, local_names(fn))
      if maps is not None:
        # break (of this loop) cannot be unrolled structurally
        brk = False
        class B(ast.NodeVisitor):
          def visit_Break (self, n):
            nonlocal brk; brk = True
          def visit_For (self, n): pass
          def visit_While (self, n): pass
          def visit_FunctionDef (self, n): pass
        for b in s.body: B().visit(b)
        if not brk and not has(s.body, (ast.Return,)) or (not brk and True):
          try:
            copies = []
            stored = set()
            for b in s.body:
              for x in ([b] + list(own_nodes(b))):
                if isinstance(x, ast.Name) and isinstance(x.ctx, ast.Store) and x.id not in known_locals: stored.add(x.id)
            for k, m0 in enumerate(maps):
              m = dict(m0)
              for nm in stored: m[nm] = "%s__%d" % (nm, k)
              cp = [_Subst(m).visit(copy.deepcopy(b)) for b in s.body]
              cp = [_FoldAttr().visit(b) for b in cp]
              if has(cp, (ast.Continue,)): cp = _continue_to_structured(cp)
              copies.append(cp)
            # a `return` inside an iteration must skip the remaining iterations: chain copies as continuations
            if has(s.body, (ast.Return,)):
              chained = []
              for cp in reversed(copies):
                chained = _chain(cp, chained)
              out += chained
            else:
              for cp in copies: out += cp
            n_un += 1
            continue
          except NotInlinable:
            pass
      out.append(s)
    return out
  fn.body = walk(fn.body)
  return n_un

def _bind_target (tgt, val, m, known_locals):
  """bind the names of a (nested) for-target to the pieces of an expression; False when it cannot be done syntactically"""
  if isinstance(tgt, ast.Name):
    if tgt.id in known_locals: return False
    m[tgt.id] = val; return True
  if isinstance(tgt, (ast.Tuple, ast.List)) and isinstance(val, (ast.Tuple, ast.List)) and len(tgt.elts) == len(val.elts) \
     and not any(isinstance(x, ast.Starred) for x in tgt.elts):
    return all(_bind_target(t, v, m, known_locals) for t, v in zip(tgt.elts, val.elts))
  return False

def _always_leaves (body):
  return bool(body) and isinstance(body[-1], (ast.Return, ast.Raise))

def _table_loop_maps (s, prev, known_locals, fn_locals):
  """`for <new names> in <literal table>` and `for <new names> in zip(SEQ, <literal table>)` where the statement before
  the loop leaves the function when SEQ is shorter than the table: one substitution per row (a loop over a table that
  was introduced for a run of look-alike statements)"""
  def table (e):
    return isinstance(e, (ast.Tuple, ast.List)) and 0 < len(e.elts) <= 16 and all(_pure_row(x) for x in e.elts)
  def _pure_row (e, d=0):
    if d > 4: return False
    if isinstance(e, ast.Constant): return True
    if isinstance(e, (ast.Tuple, ast.List)): return all(_pure_row(x, d + 1) for x in e.elts)
    if isinstance(e, ast.Attribute): return _pure_row(e.value, d + 1)
    # a local of the function may stand in a row when the loop body does not re-bind it (the row is built once, before the first pass)
    return isinstance(e, ast.Name) and (e.id not in fn_locals or e.id not in body_stores)
  body_stores = set(x.id for b in s.body for x in ast.walk(b) if isinstance(x, ast.Name) and isinstance(x.ctx, (ast.Store, ast.Del))) | \
                set(x.id for x in ast.walk(s.target) if isinstance(x, ast.Name))
  it = s.iter
  if isinstance(it, ast.Call) and isinstance(it.func, ast.Name) and it.func.id == 'enumerate' and len(it.args) == 1 and not it.keywords and isinstance(it.args[0], (ast.Tuple, ast.List)):
    # enumerate(<literal table>): the row index is a constant per row
    it = ast.Tuple(elts=[ast.Tuple(elts=[ast.Constant(value=k_), r_], ctx=ast.Load()) for k_, r_ in enumerate(it.args[0].elts)], ctx=ast.Load())
  rows = None
  if table(it) and not (all(isinstance(e, ast.Constant) for e in it.elts)):
    rows = [e for e in it.elts]
  elif isinstance(it, ast.Call) and isinstance(it.func, ast.Name) and it.func.id == 'zip' and len(it.args) == 2 and not it.keywords and table(it.args[1]) \
       and _is_path(it.args[0]):
    seq = it.args[0]; n = len(it.args[1].elts)
    # the guard that makes SEQ[i] safe for every row
    if not (isinstance(prev, ast.If) and not prev.orelse and _always_leaves(prev.body) and isinstance(prev.test, ast.Compare) and len(prev.test.ops) == 1
            and isinstance(prev.test.ops[0], ast.Lt) and isinstance(prev.test.left, ast.Call) and isinstance(prev.test.left.func, ast.Name) and prev.test.left.func.id == 'len'
            and len(prev.test.left.args) == 1 and ast.dump(prev.test.left.args[0]) == ast.dump(seq)
            and isinstance(prev.test.comparators[0], ast.Constant) and isinstance(prev.test.comparators[0].value, int) and prev.test.comparators[0].value >= n):
      return None
    rows = [ast.Tuple(elts=[ast.Subscript(value=copy.deepcopy(seq), slice=ast.Constant(value=k), ctx=ast.Load()), r], ctx=ast.Load()) for k, r in enumerate(it.args[1].elts)]
  if rows is None: return None
  maps = []
  for r in rows:
    m = {}
    if not _bind_target(s.target, r, m, known_locals): return None
    maps.append(m)
  # the bound names are read only
  bound = set(maps[0])
  for b in s.body:
    for x in ast.walk(b):
      if isinstance(x, ast.Name) and isinstance(x.ctx, (ast.Store, ast.Del)) and x.id in bound: return None
  return maps

def _is_path (e):
  while isinstance(e, ast.Attribute): e = e.value
  return isinstance(e, ast.Name)

def _chain (first, rest):
  """first ; rest  where first may contain `return` (kept as return: control simply leaves the function)"""
  return first + rest

# ---------------------------------------------------------------- N5 new literal constants
def _literal (e, depth=0, roots=()):
  """is e a literal constant expression (numbers, strings, bytes, tuples of such, + - * | << and concatenation of literals)?"""
  if depth > 6: return False
  if isinstance(e, ast.Constant): return isinstance(e.value, (int, float, str, bytes, bool, type(None)))
  if isinstance(e, ast.Tuple): return all(_literal(x, depth + 1, roots) for x in e.elts)
  if isinstance(e, ast.BinOp) and isinstance(e.op, (ast.Add, ast.Sub, ast.Mult, ast.BitOr, ast.BitAnd, ast.LShift, ast.RShift, ast.FloorDiv)): return _literal(e.left, depth + 1) and _literal(e.right, depth + 1)
  if isinstance(e, ast.UnaryOp) and isinstance(e.op, (ast.USub, ast.Invert)): return _literal(e.operand, depth + 1)
  if roots and isinstance(e, ast.Attribute):
    b = e
    while isinstance(b, ast.Attribute): b = b.value
    return isinstance(b, ast.Name) and b.id in roots
  return False

def inline_new_constants (tree, inv):
  """a module- or class-level name that is not in the reference vocabulary and is bound once to a literal is replaced by
  that literal wherever it is read (named constants introduced for magic numbers / format strings)"""
  n = 0
  known_mod = set(inv.get('<module>', ()))
  consts = {}
  counts = {}
  for s in tree.body:
    if isinstance(s, ast.Assign) and len(s.targets) == 1 and isinstance(s.targets[0], ast.Name):
      counts[s.targets[0].id] = counts.get(s.targets[0].id, 0) + 1
      if s.targets[0].id not in known_mod and _literal(s.value): consts[s.targets[0].id] = s.value
  consts = dict((k, v) for k, v in consts.items() if counts.get(k) == 1)
  cconsts = {}
  # module names bound by import statements only (a table of `pkt.lldp.X` rows is as constant as its module)
  imported = set()
  for s in tree.body:
    if isinstance(s, (ast.Import, ast.ImportFrom)):
      for a in s.names: imported.add((a.asname or a.name).split('.')[0])
  for s in ast.walk(tree):
    if isinstance(s, ast.Name) and isinstance(s.ctx, (ast.Store, ast.Del)) and s.id in imported: imported.discard(s.id)
  for c in tree.body:
    if isinstance(c, ast.ClassDef):
      known_c = set(inv.get('<class %s>' % c.name, ())) if ('<class %s>' % c.name) in inv else None
      if known_c is None: continue
      for s in c.body:
        if isinstance(s, ast.Assign) and len(s.targets) == 1 and isinstance(s.targets[0], ast.Name) and s.targets[0].id not in known_c \
           and (_literal(s.value) or (isinstance(s.value, ast.Tuple) and _literal(s.value, 0, imported))):
          cconsts[(c.name, s.targets[0].id)] = s.value
  # precompiled struct objects: NAME = struct.Struct(<literal>) at module level, NAME new -> NAME.unpack_from(b, o) is
  # struct.unpack_from(<literal>, b, o), NAME.size is struct.calcsize(<literal>)
  structs = {}
  for s in tree.body:
    if isinstance(s, ast.Assign) and len(s.targets) == 1 and isinstance(s.targets[0], ast.Name) and s.targets[0].id not in known_mod and counts.get(s.targets[0].id) == 1 \
       and isinstance(s.value, ast.Call) and isinstance(s.value.func, ast.Attribute) and s.value.func.attr == 'Struct' and isinstance(s.value.func.value, ast.Name) and s.value.func.value.id == 'struct' \
       and len(s.value.args) == 1 and not s.value.keywords:
      fmt = s.value.args[0]
      if isinstance(fmt, ast.Name) and fmt.id in consts: fmt = consts[fmt.id]
      if _literal(fmt): structs[s.targets[0].id] = fmt
  if structs:
    class S(ast.NodeTransformer):
      def __init__ (self): self.shadow = [set()]
      def visit_FunctionDef (self, node):
        self.shadow.append(self.shadow[-1] | local_names(node)); self.generic_visit(node); self.shadow.pop(); return node
      visit_AsyncFunctionDef = visit_FunctionDef
      def visit_Call (self, node):
        nonlocal n
        self.generic_visit(node)
        f = node.func
        if isinstance(f, ast.Attribute) and isinstance(f.value, ast.Name) and f.value.id in structs and f.value.id not in self.shadow[-1] and f.attr in ('unpack', 'unpack_from', 'pack', 'pack_into', 'iter_unpack'):
          n += 1
          node.func = ast.copy_location(ast.Attribute(value=ast.copy_location(ast.Name(id='struct', ctx=ast.Load()), f), attr=f.attr, ctx=ast.Load()), f)
          node.args = [ast.copy_location(copy.deepcopy(structs[f.value.id]), node)] + list(node.args)
        return node
      def visit_Attribute (self, node):
        nonlocal n
        self.generic_visit(node)
        if isinstance(node.ctx, ast.Load) and node.attr == 'size' and isinstance(node.value, ast.Name) and node.value.id in structs and node.value.id not in self.shadow[-1]:
          n += 1
          return ast.copy_location(ast.Call(func=ast.Attribute(value=ast.Name(id='struct', ctx=ast.Load()), attr='calcsize', ctx=ast.Load()), args=[copy.deepcopy(structs[node.value.id])], keywords=[]), node)
        return node
    sv = S()
    for s in tree.body:
      if isinstance(s, (ast.ClassDef,) + FUNC): sv.visit(s)
    ast.fix_missing_locations(tree)
  if not consts and not cconsts: return n
  class R(ast.NodeTransformer):
    def __init__ (self, cls): self.cls = cls; self.shadow = [set()]
    def visit_FunctionDef (self, node):
      self.shadow.append(self.shadow[-1] | local_names(node))
      self.generic_visit(node); self.shadow.pop(); return node
    visit_AsyncFunctionDef = visit_FunctionDef
    def visit_Name (self, node):
      nonlocal n
      if isinstance(node.ctx, ast.Load) and node.id in consts and node.id not in self.shadow[-1]:
        n += 1; return ast.copy_location(copy.deepcopy(consts[node.id]), node)
      return node
    def visit_Call (self, node):
      self.generic_visit(node)
      if isinstance(node.func, ast.Name) and node.func.id == 'len' and len(node.args) == 1 and not node.keywords and isinstance(node.args[0], ast.Tuple) \
         and not any(isinstance(x, ast.Starred) for x in node.args[0].elts):
        return ast.copy_location(ast.Constant(value=len(node.args[0].elts)), node)
      return node
    def visit_Attribute (self, node):
      nonlocal n
      self.generic_visit(node)
      if isinstance(node.ctx, ast.Load) and isinstance(node.value, ast.Name):
        owner = node.value.id
        for (cn, nm), v in cconsts.items():
          if nm == node.attr and (owner == cn or (owner in ('self', 'cls') and self.cls == cn)):
            n += 1; return ast.copy_location(copy.deepcopy(v), node)
      return node
  for s in tree.body:
    if isinstance(s, ast.ClassDef):
      r = R(s.name)
      for b in s.body:
        if isinstance(b, FUNC): r.visit(b)
    elif isinstance(s, FUNC): R(None).visit(s)
  return n

# ---------------------------------------------------------------- N6 function factories
def instantiate_factories (tree, inv):
  """NAME = F(a, b) at module level, where F is a *new* module function of the shape `def F(p, q): [docstring]; def G(...): ...;
  return G` and the arguments are plain names / attribute chains / literals: NAME becomes an ordinary function - G's body with
  F's parameters replaced by the arguments.  (G must not re-bind F's parameters; F's parameters must be plain positional.)"""
  known = set(inv.get('<module>', ())) | set(k for k in inv if not k.startswith('<'))
  facts = {}
  for s in tree.body:
    if isinstance(s, FUNC) and s.name not in inv:
      body = [b for b in s.body if not (isinstance(b, ast.Expr) and isinstance(b.value, ast.Constant) and isinstance(b.value.value, str))]
      a = s.args
      if len(body) == 2 and isinstance(body[0], ast.FunctionDef) and isinstance(body[1], ast.Return) and isinstance(body[1].value, ast.Name) and body[1].value.id == body[0].name \
         and not (a.vararg or a.kwarg or a.kwonlyargs or a.posonlyargs or a.defaults) and not body[0].decorator_list:
        ps = [x.arg for x in a.args]
        inner = body[0]
        bound_inner = set(x.id for x in ast.walk(inner) if isinstance(x, ast.Name) and isinstance(x.ctx, (ast.Store, ast.Del))) | set(x.arg for x in ast.walk(inner.args) if isinstance(x, ast.arg))
        if not (set(ps) & bound_inner) and not any(isinstance(x, (ast.Global, ast.Nonlocal)) for x in ast.walk(inner)): facts[s.name] = (ps, inner)
  if not facts: return 0
  n = 0
  def arg_ok (e):
    if isinstance(e, ast.Constant): return True
    while isinstance(e, ast.Attribute): e = e.value
    return isinstance(e, ast.Name)
  out = []
  for s in tree.body:
    if isinstance(s, ast.Assign) and len(s.targets) == 1 and isinstance(s.targets[0], ast.Name) and isinstance(s.value, ast.Call) and isinstance(s.value.func, ast.Name) \
       and s.value.func.id in facts and not s.value.keywords and all(arg_ok(x) for x in s.value.args) and len(s.value.args) == len(facts[s.value.func.id][0]):
      ps, inner = facts[s.value.func.id]
      fn = copy.deepcopy(inner)
      fn.name = s.targets[0].id
      m = dict(zip(ps, s.value.args))
      fn.body = [_Subst(m).visit(b) for b in fn.body]
      ast.copy_location(fn, s); ast.fix_missing_locations(fn)
      out.append(fn); n += 1
    else: out.append(s)
  tree.body = out
  return n

# ---------------------------------------------------------------- driver
def normalize_module (tree, modname, stats=None, external=None, external_def=None):
  inv = inventory().get(modname)
  n_alpha = alpha_rename(tree, modname)
  tree = _Desugar().visit(tree)
  def split (body):
    for s in body:
      if isinstance(s, FUNC): s.body = _split_ifexp(s.body)
      elif isinstance(s, ast.ClassDef): split(s.body)
  split(tree.body)
  info = {'inlined': [], 'expanded': 0, 'alpha': n_alpha}
  if inv is not None and module_inventory(tree) == inv:
    inv = None          # nothing new in this module: analysed as written
  if inv is not None:
    info['constants'] = inline_new_constants(tree, inv)
    info['factories'] = instantiate_factories(tree, inv)
    il = Inliner(tree, inv, external_def, external)
    il.run(); info['inlined'] = il.inlined
    # a new helper all of whose uses in this module were inlined is no longer a unit of its own
    used = set(h for _, h in il.inlined)
    def still_referenced (name, helper):
      for n in ast.walk(tree):
        if n is helper: continue
        if isinstance(n, ast.Attribute) and n.attr == name: return True
        if isinstance(n, ast.Name) and n.id == name and isinstance(n.ctx, ast.Load): return True
        if isinstance(n, ast.Constant) and n.value == name: return True
      return False
    def inside (helper):
      return set(id(x) for x in ast.walk(helper))
    nodes_with_class = []; owner_of = {}; own_methods = {}
    def collect (node, cls_):
      for ch in ast.iter_child_nodes(node):
        c2 = cls_
        if isinstance(ch, ast.ClassDef):
          c2 = ch.name
          own_methods[ch.name] = set(x.name for x in ch.body if isinstance(x, FUNC))
          for x in ch.body:
            if isinstance(x, FUNC): owner_of[id(x)] = ch.name
        nodes_with_class.append((ch, c2))
        collect(ch, c2)
    collect(tree, None)
    def il_related (a, b, seen=None):
      seen = seen or set()
      if a == b: return True
      if a in seen: return False
      seen.add(a)
      return any(il_related(x, b, seen) for x in il.bases.get(a, ()))
    def prune (body):
      out = []
      for s_ in body:
        if isinstance(s_, ast.ClassDef): s_.body = prune(s_.body) or [ast.Pass()]
        if isinstance(s_, FUNC) and s_.name in used and any(v is s_ for v in il.helpers.values()):
          ids = inside(s_)
          ref = False
          owner = owner_of.get(id(s_))
          for n, ncls in nodes_with_class:
            if id(n) in ids: continue
            if (isinstance(n, ast.Attribute) and n.attr == s_.name) or (isinstance(n, ast.Name) and n.id == s_.name and isinstance(n.ctx, ast.Load)):
              # a reference from an unrelated class that has a method of this name of its own means that class's method
              if owner is not None and ncls is not None and ncls != owner and s_.name in own_methods.get(ncls, ()) and not (il_related(ncls, owner) or il_related(owner, ncls)): continue
              # `x.name(...)` on some other object, from code outside the owner's family, while an unrelated class of this module
              # has a method of that name that is not new: that is the older method being called
              if owner is not None and isinstance(n, ast.Attribute) and not (isinstance(n.value, ast.Name) and n.value.id in ('self', 'cls')) and (ncls is None or not (il_related(ncls, owner) or il_related(owner, ncls))) \
                 and any(c_ != owner and s_.name in ms_ and ('%s.%s' % (c_, s_.name)) in inv and not (il_related(c_, owner) or il_related(owner, c_)) for c_, ms_ in own_methods.items()): continue
              ref = True; break
          if not ref and external is not None and external(s_.name):
            # another file mentions the name: it stays a unit if that can mean *this* helper - the file also names the owner
            # class (method) or this module (function)
            who = owner if owner is not None else modname.split('.')[-1]
            if external(who): ref = True
          if not ref:
            info.setdefault('dropped', []).append(s_.name); continue
        out.append(s_)
      return out
    tree.body = prune(tree.body)
    def visit (body, prefix):
      for s in body:
        if isinstance(s, FUNC):
          q = prefix + s.name
          known = set(inv.get(q, ())) if q in inv else set()
          if q in inv:
            info['unrolled'] = info.get('unrolled', 0) + unroll_name_loops(s, known)
            for _ in range(4):
              k = expand_temps(s, known)
              info['expanded'] += k
              if not k: break
            _split_tuple_returns(s)
          for n in ast.walk(s):
            if n is not s and isinstance(n, FUNC):
              qq = q + '.' + n.name
              if qq in inv: info['expanded'] += expand_temps(n, set(inv[qq]))
        elif isinstance(s, ast.ClassDef): visit(s.body, prefix + s.name + '.')
    visit(tree.body, '')
  ast.fix_missing_locations(tree)
  if stats is not None: stats[modname] = info
  return tree
