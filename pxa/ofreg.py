"""OpenFlow registries as the decorators in libopenflow_01 build them, re-derived
from the current source, plus the spec tables."""
import ast, json, os
from .model import AnalysisError, deco_name, Cls
from . import dynnames

SPECDIR = os.path.join(os.path.dirname(os.path.dirname(os.path.abspath(__file__))), 'spec')
_spec = {}
def spec (name='of10_enums'):
  if name not in _spec:
    with open(os.path.join(SPECDIR, name + '.json')) as f: _spec[name] = json.load(f)
  return _spec[name]

LOF = 'openflow.libopenflow_01'

class Reg(object):
  def __init__ (self, deco, kind, name, value, cls, call):
    self.deco = deco; self.kind = kind; self.name = name; self.value = value
    self.cls = cls; self.call = call
    self.switch = deco in ('openflow_sc_message', 'openflow_s_message')
    self.controller = deco in ('openflow_sc_message', 'openflow_c_message')
    self.is_reply = deco == 'openflow_stats_reply'
    self.is_list = None
    for k in call.keywords:
      v = None
      try: v = ast.literal_eval(k.value)
      except Exception: pass
      if k.arg == 'switch' and v is not None: self.switch = bool(v)
      if k.arg == 'controller' and v is not None: self.controller = bool(v)
      if k.arg == 'is_list': self.is_list = v
      if k.arg == 'is_reply' and v is not None: self.is_reply = bool(v)
      if k.arg in ('reply_to', 'request_for'): setattr(self, k.arg, v)

def registrations (repo, modname=LOF):
  m = repo.mod(modname)
  out = []
  for dn, kind, name, val, c, call in dynnames.registrations(repo, m):
    out.append(Reg(dn, kind, name, val, c, call))
  return out

def messages (repo):
  return [r for r in registrations(repo) if r.kind == 'ofp_type']
def actions (repo):
  return [r for r in registrations(repo) if r.kind == 'ofp_action_type']
def stats (repo):
  """resolve stats registrations to (name, value) even when only one side
  carries the number"""
  regs = [r for r in registrations(repo) if r.kind == 'ofp_stats_type']
  vals = {}
  for r in regs:
    if r.value is not None: vals[r.name] = r.value
  for r in regs:
    if r.value is None: r.value = vals.get(r.name)
  return regs
def queue_props (repo):
  return [r for r in registrations(repo) if r.kind == 'ofp_queue_prop_type']

def class_for_type (repo, kind_regs, value):
  """last registration wins (as the dict assignment in the decorator does)"""
  c = None
  for r in kind_regs:
    if r.value == value: c = r
  return c

def const_value (repo, module, name):
  """value of a global constant name as seen from `module` (through imports,
  star imports and the generated names); None when unknown"""
  e = ast.Name(id=name, ctx=ast.Load())
  return repo.try_const(module, e)
