"""R-PROGRESS: loops driven by received bytes must advance on every iteration.

For a loop, every path from the loop head back to the loop head is enumerated
(constant propagation + callee summaries prune infeasible ones) and must carry
a *step with proven positive size*.  Accepted evidence is enumerated in
`positive()`; anything else is reported with the path."""
import ast
from . import q
from .model import calls_in, call_name, norm, walk_no_nested

class Step(object):
  def __init__ (self, kind, var, size, node): self.kind = kind; self.var = var; self.size = size; self.node = node
  def __repr__ (self): return "%s %s by %s" % (self.kind, self.var, norm(self.size) if isinstance(self.size, ast.AST) else self.size)

def steps_on_path (fnode, path):
  out = []
  for n in path:
    a = n.ast
    if n.kind != 'stmt' or a is None: continue
    if isinstance(a, ast.AugAssign) and isinstance(a.target, ast.Name) and isinstance(a.op, (ast.Add, ast.Sub)):
      out.append(Step('add' if isinstance(a.op, ast.Add) else 'sub', a.target.id, a.value, n))
    elif isinstance(a, ast.Assign) and len(a.targets) == 1:
      t = a.targets[0]; v = a.value
      if isinstance(v, ast.Subscript) and isinstance(v.slice, ast.Slice) and v.slice.upper is None and v.slice.lower is not None and norm(v.value) == norm(t):
        out.append(Step('drop-prefix', norm(t), v.slice.lower, n))
      elif isinstance(t, ast.Name):
        b, k = q.linear(v, None)
        if b == t.id and k != 0: out.append(Step('add', t.id, k, n))
        elif isinstance(v, ast.BinOp) and isinstance(v.op, ast.Add) and isinstance(v.left, ast.Name) and isinstance(v.right, ast.Name) and t.id in (v.left.id, v.right.id) and v.left.id != v.right.id:
          # cursor = cursor + size  (the spelled-out form of cursor += size)
          out.append(Step('add', t.id, v.right if v.left.id == t.id else v.left, n))
        elif isinstance(v, ast.Name) and v.id != t.id:
          out.append(Step('assign', t.id, v, n))        # size decided from a path fact  v - t == S
    for c in q.node_calls(n):
      if call_name(c) in ('consume_receive_buf', '_consume_send_buf') and c.args:
        out.append(Step('consume', norm(c.func.value), c.args[0], n))
  return out

def path_facts (path):
  out = []
  for n in path:
    if n.kind != 'branch' or isinstance(n.label[0], (ast.For, ast.AsyncFor)): continue
    for (l, o, r) in q.facts_of(n.label[0], n.label[1]):
      out.append((l, o, r))
  return out

def lower_bound (name, facts):
  best = None
  for l, o, r in facts:
    if r is None: continue
    for (a, op, c) in ((l, o, r), (r, q.flip(o), l)):
      if op is None or norm(a) != name: continue
      k = q.try_int(c)
      if k is None: continue
      v = k if op == '>=' else (k + 1 if op == '>' else (k if op == '==' else None))
      if v is not None: best = v if best is None else max(best, v)
  return best

def positive (step, facts, fnode, path, nonempty_len=None):
  """(ok, why) - is the step's size proven >= 1 on this path?"""
  s = step.size
  if isinstance(s, int): return (s >= 1 if step.kind != 'sub' else s >= 1), "constant step %s" % s
  k = q.try_int(s)
  if k is not None: return k >= 1, "constant step %d" % k
  if step.kind == 'assign':
    # cursor = new  with fact  new - cursor == S (assert) and S >= 1
    for l, o, r in facts:
      if r is None or o != '==': continue
      for a, b in ((l, r), (r, l)):
        if isinstance(a, ast.BinOp) and isinstance(a.op, ast.Sub) and norm(a.left) == norm(s) and norm(a.right) == step.var and isinstance(b, ast.Name):
          lb = lower_bound(b.id, facts)
          if lb is not None and lb >= 1: return True, "%s - %s == %s and %s >= %d" % (norm(s), step.var, b.id, b.id, lb)
          return False, "%s - %s == %s but no fact bounds %s below: it may be 0" % (norm(s), step.var, b.id, b.id)
    # the same fact in any arrangement (new == cursor + S, S == new - cursor, ...): linear form new - cursor - S == 0
    for l, o, r in facts:
      if r is None or o != '==': continue
      a = q.lin_terms(l); b = q.lin_terms(r)
      if a is None or b is None: continue
      d = dict(a[0])
      for k_, v_ in b[0].items():
        d[k_] = d.get(k_, 0) - v_
        if d[k_] == 0: del d[k_]
      c0 = a[1] - b[1]
      for sgn in (1, -1):
        dd = dict((k_, sgn * v_) for k_, v_ in d.items()); cc = sgn * c0
        if dd.get(norm(s)) == 1 and dd.get(step.var) == -1:
          rest = dict((k_, v_) for k_, v_ in dd.items() if k_ not in (norm(s), step.var))
          # new - cursor = -(rest) - cc ; every rest term must have coefficient -1 and a positive lower bound, or be absent
          if all(v_ == -1 for v_ in rest.values()):
            lbs = [lower_bound(k_, facts) for k_ in rest]
            if all(x is not None for x in lbs) and sum(lbs) - cc >= 1:
              return True, "%s == %s + %s with %s" % (norm(s), step.var, " + ".join(rest) or str(-cc), ", ".join("%s >= %d" % (k_, x) for k_, x in zip(rest, lbs)))
    # explicit `if new == old: raise`
    for l, o, r in facts:
      if r is not None and o == '!=' and norm(s) in (norm(l), norm(r)):
        other = r if norm(l) == norm(s) else l
        # compared with the variable itself, which still holds the previous value when the fact is established
        if isinstance(other, ast.Name) and other.id == step.var: return True, "explicit %s != previous %s" % (norm(s), step.var)
        # `old = cursor` saved earlier and compared with the new value
        if isinstance(other, ast.Name) and fnode is not None:
          d = q.reaching_assign(fnode, other.id)
          if d and all(v is not None and norm(v) == step.var for v, st_, k in d):
            return True, "explicit %s != saved previous cursor %s" % (norm(s), other.id)
    return False, "new cursor `%s` is not tied to the old one by any fact on the path" % norm(s)
  if isinstance(s, ast.Name):
    lb = lower_bound(s.id, facts)
    if lb is not None and lb >= 1: return True, "%s >= %d on this path" % (s.id, lb)
    # len(obj) == s with obj a codec instance of positive minimum length
    for l, o, r in facts:
      if r is None or o != '==': continue
      for a, b in ((l, r), (r, l)):
        if isinstance(a, ast.Call) and call_name(a) == 'len' and norm(b) == s.id and nonempty_len is not None:
          ok, why = nonempty_len(a.args[0], path)
          if ok: return True, "%s == len(%s) and %s" % (s.id, norm(a.args[0]), why)
    return False, "no fact bounds `%s` below: it may be 0" % s.id
  return False, "step size `%s` not understood" % norm(s)

def explicit_progress_assert (facts, loop_test, path=None):
  """assert len(X) != prev  where the loop is driven by len(X) - or by a variable that holds the previous len(X) and is
  then given the new one on the same path"""
  for l, o, r in facts:
    if r is None or o != '!=': continue
    for a, b in ((l, r), (r, l)):
      if isinstance(a, ast.Call) and call_name(a) == 'len' and isinstance(b, ast.Name) and norm(a) in norm(loop_test):
        return True, "asserted %s != %s" % (norm(a), b.id)
      if isinstance(a, ast.Call) and call_name(a) == 'len' and isinstance(b, ast.Name) and b.id in q.names_in(loop_test) and path is not None:
        upd = [n for n in path if n.kind == 'stmt' and isinstance(n.ast, ast.Assign) and len(n.ast.targets) == 1 and isinstance(n.ast.targets[0], ast.Name)
               and n.ast.targets[0].id == b.id and norm(n.ast.value) == norm(a)]
        if upd: return True, "asserted %s != %s, then %s = %s" % (norm(a), b.id, b.id, norm(a))
  return False, ''

def check_loop (repo, func, g, head, after, loop_stmt, env=None, nonempty_len=None, limit=300, cursors=None, exc=False):
  """returns list of (ok, reason, path_lines) one per head->head path (ok None = undecided)"""
  env = env or q.Env()
  paths = q.paths_under(repo, func.module, g, env, head, [head], func.cls, limit=limit, exc=exc)
  res = []
  test = loop_stmt.test if isinstance(loop_stmt, ast.While) else None
  if test is not None and isinstance(test, ast.Constant):
    # `while True:` - the loop is driven by the tests that guard its breaks
    tests = []
    for n in g.nodes:
      if n.kind == 'break' and any(m is after for m, l in n.succ):
        for t_, pol, b in g.guards(n):
          if not isinstance(t_, (ast.For, ast.AsyncFor)) and g.dominates(head, b) and t_ not in tests: tests.append(t_)
    if tests: test = tests[0] if len(tests) == 1 else ast.BoolOp(op=ast.And(), values=tests)
  drivers = q.names_in(test) if test is not None else set()
  for path, fe in paths:
    facts = path_facts(path)
    steps = steps_on_path(func.node, path)
    lines = PathDesc(_lines(path), path)
    if test is not None:
      ok, why = explicit_progress_assert(facts, test, path)
      if ok: res.append((True, why, lines)); continue
    good = None; reasons = []
    for s in steps:
      if cursors is not None:
        relevant = s.kind in ('consume', 'drop-prefix') or s.var in cursors
      else:
        relevant = (s.var in drivers) or s.kind in ('consume', 'drop-prefix') or any(s.var in norm(x) for x in [test] if x is not None)
      if not relevant: continue
      ok, why = positive(s, facts, func.node, path, nonempty_len)
      reasons.append("%r: %s" % (s, why))
      if ok: good = True; break
      if good is None: good = False
    if good is None:
      res.append((False, "no statement on this path advances the loop's cursor / consumes input", lines))
    else:
      res.append((good, "; ".join(reasons[-2:]), lines))
  return res, len(paths)

def _lines (path):
  out = []
  for n in path:
    if n.line and (not out or out[-1] != n.line): out.append(n.line)
  return out

class PathDesc(list):
  """list of line numbers that also carries a position-independent signature
  (hash of the branch decisions taken)"""
  def __init__ (self, lines, path):
    list.__init__(self, lines)
    import hashlib
    txt = "|".join("%s=%s" % (ast.unparse(n.label[0]) if not isinstance(n.label[0], (ast.For, ast.AsyncFor)) else 'for', n.label[1]) for n in path if n.kind == 'branch')
    self.sig = hashlib.sha1(txt.encode()).hexdigest()[:6]
    self.decisions = txt
