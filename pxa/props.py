"""Per-property MANIFEST texts.  tools/mkmanifest.py turns this into MANIFEST.json
for every property whose check module exists."""
P = {}
def prop (id, text, note, technique, ref):
  P[id] = dict(text=text, note=note, technique=technique, ref=ref)

COMMON_NOTE = (" Trusted base: CPython ast/struct semantics, the pxa engine (CFG, dominance, effect intervals, path "
  "enumeration with constant propagation, layout extraction, source normalisation against the reference vocabulary "
  "spec/inventory.json: new helpers inlined, new temporaries and literal constants expanded), spec tables under /verif/spec; "
  "assert statements execute (no -O); no monkey-patching beyond the modelled idioms. Rules are three-valued: 'undecided' "
  "obligations are listed in the evidence and raise no alarm.")

prop('C18',
  "Static analysis of /repo's current source: decides on all paths the structural necessary conditions of the buffer "
  "discipline - only the allocator and the use-and-free routine write the buffer list (R-OWN, repo-wide), the only growth "
  "site is dominated by len<max_buffers and free slots are reused first, ids are index+1 on both allocation paths and "
  "n_buffers advertises the same bound, emission from a buffer is dominated by range and not-None checks and followed "
  "by the free on every normal path (at most one emission), packet-in data is truncated only when buffered and total_len "
  "is defined before the truncation. Decides these conditions, not the behaviour over histories.",
  "Not decided: histories of length 60, slot reuse under re-entrant OFPP_TABLE, contents of emitted packets.",
  "custom AST/CFG checker: ownership (who-may-write), guard dominance, post-dominance, effect intervals, def-use", "DESIGN.md 5/C18")

prop('C13',
  "Static analysis of /repo's current source: decides on all paths the structural necessary conditions of request/reply - every "
  "controller-originated message type (registry re-derived from the decorators, compared with the OF1.0 type table) has the handler "
  "the switch's naming convention selects; each of the six request kinds produces exactly one send/send_error on every path "
  "(effect intervals with callee summaries; stats handlers partitioned by None/non-None return); reply constructors are the "
  "spec's reply class with xid=<request>.xid and are the object sent; every send_error carries ofp=<request> and a code of its "
  "type's family (spec table); handlers are synchronous (no generator, no deferral); request-keyed dictionary lookups are guarded; "
  "all names are defined. Decides these conditions, not reply contents or behaviour through the byte connection.",
  "Not decided: reply contents (counters, descriptions), sequences through the byte connection, encoder soundness of reply classes (C01).",
  "custom AST/CFG checker: registry exhaustiveness, effect intervals (exactly-once), def-use agreement, guard dominance, definiteness", "DESIGN.md 5/C13")

prop('C04',
  "Static analysis of /repo's current source: decides on all paths the structural necessary conditions of the FLOW_MOD/timeout "
  "state machine - all five commands dispatch to a handler and an unknown one gets BAD_COMMAND; in ADD every rejection precedes any "
  "table mutation, the strict removal of the identical (match, priority) entry precedes the insert and passes no reason, the "
  "capacity test dominates the insert; strict variants pass strict=True, DELETE passes out_port/NONE->None/reason DELETE, MODIFY "
  "falls through to ADD only when nothing matched; the out_port filter is conjoined into strict and non-strict matching; every "
  "removal routine announces once with the removed entries; flow_removed objects come only from the notification handler, under "
  "SEND_FLOW_REM and not EMERG, reachable for each of the reasons idle/hard/delete (guards evaluated under constant substitution) "
  "and not for reason None; creation time written once, traffic touches only the idle clock, timeout tests pair clock and timeout "
  "and are oriented so they cannot succeed early, expiry reasons match their lists, scans have no early exit. Decides these "
  "conditions, not equivalence with the spec's table over histories.",
  "Not decided: table contents over command sequences, subsumption semantics of matches_with_wildcards for overlapping matches (values), timing.",
  "custom AST/CFG checker: must-precede ordering, guard dominance, effect intervals, argument agreement, guard evaluation under constant substitution, ownership", "DESIGN.md 5/C04")

prop('C12',
  "Static analysis of /repo's current source: decides structural necessary conditions of action application and port rules - each of "
  "the 12 OF1.0 action codes has the handler the naming convention selects, reads only fields of its registered codec class and "
  "returns the packet on every path; each rewrite handler writes exactly the header field the spec names from the action field of "
  "the same name under the right protocol guards; VLAN push/strip read type and payload before overwriting them; the physical emission "
  "and both tx counters are unreachable (path-sensitive reachability under each flag assignment) for the ingress port, a missing port, "
  "NO_FWD, PORT_DOWN, LINK_DOWN and lie on exactly the same paths; receive counters and lookup are reachable exactly for the accepted "
  "combinations of NO_RECV/NO_RECV_STP/STP-ness (all 8) and not for dropped fragments or NO_PACKET_IN misses; every virtual port has its "
  "arm, flood/all skip exactly the ingress port (and NO_FLOOD for flood) and never break; port-mod errors precede any config change. "
  "Decides these conditions, not emitted bytes or checksum validity.",
  "Not decided: byte-for-byte results, checksum/length validity after rewrites (C14), the full port-flag product beyond the enumerated assignments.",
  "custom AST/CFG checker: registry exhaustiveness, path-sensitive reachability under constant environments, mutual (post)dominance, def-use ordering, field-table agreement", "DESIGN.md 5/C12")

prop('C05',
  "Static analysis of /repo's current source: decides structural necessary conditions of event delivery - the dispatch loop iterates a "
  "snapshot (or no method mutates the list in place); subscriptions append and the sort is reverse=True on the priority alone, with a "
  "sticky per-event flag (or unconditional sort) so later default-priority additions are sorted in; the handler return-value protocol is "
  "decided by constant propagation through the loop body for every (return value, once, invocation form) combination - removed iff "
  "once/False/(_,True), halted iff True/(True,..)/(); removeListener has no use-before-assignment on any feasible path; the declared-event "
  "test dominates table mutation (subscribe) and dispatch (raise of an instance); raiseEventNoErrors wraps raiseEvent in a catch-all that "
  "re-raises only ReventError and calls an arity-compatible hook; CallProxy keeps only weak references whose callback removes the "
  "listener by the (type, eid) pair addListener passed; autoBindEvents' slice offset equals the literal prefix length. Decides these "
  "conditions, not delivery semantics over arbitrary handler histories or GC timing.",
  "Not decided: whether a handler removed by an earlier handler still runs in the same delivery (snapshot semantics), GC timing of weak handlers.",
  "custom AST/CFG checker: iteration-vs-mutation, constant propagation over enumerated paths (finite protocol table), definite assignment with path feasibility, guard reachability, exception containment", "DESIGN.md 5/C05")

prop('C08',
  "Static analysis of /repo's current source: decides structural necessary conditions of the rendezvous - in _try_waiter the still-waiting "
  "guard dominates removal and callback, a missing component returns before either, removal dominates the callback (exactly-once under "
  "re-entrant registration) and the callback sits in a catch-all try; register stores, announces with error suppression, then tries the "
  "waiters on every path; call_when_ready appends then tries the same entry; the sweep iterates a copy and repeats to a fixpoint; "
  "listen_to_dependencies declares exactly one rendezvous and its handler-name parsing is decided by constant evaluation of the parse "
  "expressions on sample names (components containing underscores); each lifecycle event has a single raise site raised at most once per "
  "call, stage 2 is reachable only from a deferral release guarded by an empty set and not-starting-up, deferral tokens are fresh objects, "
  "goUp holds its own deferral across GoingUpEvent, _quit is a test-and-set with GoingDown before Down. Decides these conditions, not all "
  "registration/declaration permutations as executed histories.",
  "Not decided: permutations as executed histories; behaviour of user callbacks.",
  "custom AST/CFG checker: dominance/must-precede, exception containment, iteration-vs-mutation, constant evaluation of string-parsing expressions, once-only call-chain analysis", "DESIGN.md 5/C08")

prop('C17',
  "Static analysis of /repo's current source: decides structural necessary conditions - PortCollection._forget masks the number and drops "
  "the local copy on every path, _update unmasks, drops the same-numbered port then stores the new one, _reset clears both; a chained lookup "
  "returns only unmasked ports and a miss raises; keys() is chain keys minus masks plus own and every derived view uses keys()/__getitem__ "
  "only; query methods return on every path; the original port set is written only by the features-reply handlers and the live view only "
  "by port-status/features handling with DELETE->_forget, else->_update; in the stats reassembly a part is appended only when both xid "
  "and type continue the pending sequence (all four combinations decided by path-sensitive reachability), otherwise the pending parts are "
  "replaced; the aggregate handler is reachable only for the final part, at most once, after the pending list has been reset, with the "
  "saved parts; list-bodied aggregate handlers concatenate every part in order; all names/attributes on these paths exist. Decides these "
  "conditions, not lookups by name/address after renames or event payloads.",
  "Not decided: name/hw-address lookup after a rename (stale chained entry), payload contents, interleavings of replies beyond the enumerated cases.",
  "custom AST/CFG checker: effect intervals, path-sensitive reachability under constant environments, ownership, must-precede, definiteness", "DESIGN.md 5/C17")

prop('C09',
  "Static analysis of /repo's current source: decides structural necessary conditions - ConnectionUp is raised only in _finish_connecting, "
  "which is called only from the handshake's barrier-reply and barrier-unsupported-error handlers under `self._barrier` and the barrier's "
  "xid; the barrier is created only after features/dpid were recorded; handler swap, connect_time and the registry entry dominate the "
  "ConnectionUp raise; early port-status messages are buffered only while buffering is on and replayed after both ConnectionUp raises, in "
  "list order, through the connected-state handler; ConnectionDown is raised only in disconnect under the disconnection_raised "
  "test-and-set, and for each (disconnected, raised, defer_event) state path-sensitive reachability decides whether it must / must not be "
  "raised; close() always disconnects; every removal from the task's select list is preceded by close(); the registry is written only by "
  "_connect/_disconnect, delete is unreachable when the entry holds a different connection, connections enter it only post-handshake; "
  "every event raised on a connection/nexus is declared there and every handle_<NAME> names a switch-originated type. Decides these "
  "conditions, not arbitrary interleavings of replies or socket-level loss points.",
  "Not decided: interleavings of handshake replies with asynchronous messages as executions; socket-level loss points; timing of the deferred sender.",
  "custom AST/CFG checker: who-may-raise / who-may-write ownership, dominance, path-sensitive reachability under constant environments (once-only state table), registry exhaustiveness", "DESIGN.md 5/C09")

prop('C20',
  "Static analysis of /repo's current source: decides structural necessary conditions of the send path - at every socket-send site "
  "(Connection.send, DeferredSender.run, IOWorker._do_send, RecocoIOWorker.send_fast; recoco.Send in the thorough tier) def-use from "
  "`l = sock.send(B)` shows the count is compared with len of the same buffer B and the remainder is the suffix B[l:] (or "
  "_consume_send_buf(l) of the written buffer); queues grow at the tail and shrink at the head, a partial deferred write replaces the head "
  "by its suffix and stops; the direct write in Connection.send is unreachable while the deferred sender is sending or the connection is "
  "disconnected, and only the unsent suffix is handed off; every access to the deferred map and every write of `sending` lies inside "
  "`with self._lock`, flag and queue in one critical section, flag first, cleared only when the map is empty; a closed / connecting / "
  "non-empty-buffer worker cannot reach the direct write in send_fast; fatal branches disconnect/close, drop the queue and stop; close is a "
  "test-and-set. Decides these conditions, not all fault scripts or thread timings as executions.",
  "Not decided: thread interleavings at bytecode granularity; behaviour of the OS socket; that the deferred sender eventually flushes.",
  "custom AST/CFG checker: def-use send-result discipline, lock-region membership, must-precede, path-sensitive reachability under constant environments, ownership of queue writers", "DESIGN.md 5/C20")

prop('C02',
  "Static analysis of /repo's current source: assigns the framing roles (buffer, cursor, wire length, available bytes, decode, delivery, "
  "advance) on the controller-side and switch-side read loops by def-use, then decides the obligations of the loop invariant 'buffer = "
  "unconsumed suffix; every complete prefix message delivered once, in order': received bytes are appended and every other writer of the "
  "reassembly buffers drops a prefix only; each header index / struct read at cursor+k is dominated by guards proving at least that many "
  "bytes available; decode and delivery are dominated by available >= wire length; the cursor advances by exactly the wire length "
  "(asserted equality or consume(wire length)) exactly once on every path that continues after a decode; at most one delivery per decode "
  "and none on the incomplete-message exit; the residual is kept (prefix trimmed on every normal exit with a non-zero cursor / view "
  "re-peeked per iteration); every arrival of bytes reaches the framing loop. Decides these obligations, not 'for every segmentation' as "
  "an executed statement.",
  "Not decided: the behavioural claim itself follows by the hand argument from the invariant; 2048-byte recv boundary effects; handlers re-entering read(); malformed lengths (C10).",
  "custom AST/CFG checker: role inference by def-use, guard dominance with linear bounds, effect intervals, ownership of buffer writers, must-pass-through", "DESIGN.md 5/C02")

prop('C10',
  "Static analysis of /repo's current source: decides structural necessary conditions of containment - for every loop driven by received "
  "bytes (both framing loops, the action / queue-property / queue / stats-part list decoders, the capture-socket loops) all "
  "loop-head-to-loop-head paths are enumerated with constant propagation and callee summaries specialised on constant arguments "
  "(_error_handler per reason), and each must carry a step of proven positive size (wire length >= 8 guard, asserted consumed==declared, "
  "`l < 1` raise, asserted buffer shrink, element length == len(codec object) with positive minimum length); con.read() sits in a "
  "catch-all inside the task's main loop whose handler closes that connection and cannot break for an ordinary socket; message handlers "
  "are called in a catch-all after the cursor advanced; the IO worker's receive hand-off sits in a catch-all that closes and drops only "
  "that worker; error-handler results that signal 'closed' stop the loop and close() implies return False; consumed==declared is "
  "checked before the cursor moves / before delivery; error payloads are bytes. Decides these conditions, not termination for every "
  "byte string.",
  "Not decided: totality over all byte strings (only the listed loops and frames are analysed); contents of error replies beyond type/code; OS-level socket errors in the accept loop.",
  "custom AST/CFG checker: loop-progress prover over enumerated paths with constant propagation and constant-argument callee summaries, exception-containment frames, guard dominance", "DESIGN.md 5/C10")

prop('C11',
  "Static analysis of /repo's current source (partial property): decides structural necessary conditions of the learning-switch loop - "
  "every path of _handle_PacketIn (closures flood/drop summarised by must-pass analysis) sends a message that carries the packet-in or "
  "its buffer id, or lies on the no-buffer branch (buffers never leak); the learning store dominates every decision; the install+forward "
  "send is dominated by port != ingress port and by 'destination learned'; for LLDP / bridge-filtered frames in non-transparent mode "
  "only drop() is reachable; multicast and unknown destinations reach flood and not install; flood sets in_port and OFPP_FLOOD; the "
  "installed match is from_packet(packet, ingress port) with output to the learned port and non-zero timeouts; on the switch side a "
  "flow-mod / packet-out naming a buffer always reaches the use-and-free routine; flow_mod.pack's data magic and packet_out.data take "
  "buffer id and in_port from the packet-in. Decides these conditions, not equivalence with an ideal learning bridge.",
  "Not decided: bridge equivalence over frame histories, interaction with cached flows/timeouts, delivery through the real encoding end to end.",
  "custom AST/CFG checker: must-pass-through with closure summaries, guard dominance, path-sensitive reachability under constant environments, argument agreement", "DESIGN.md 5/C11")

prop('C19',
  "Static analysis of /repo's current source (partial property): decides structural necessary conditions - the adjacency is written only by "
  "the probe handler and _delete_links; LinkEvent(added) is raised only under `link not in adjacency` together with the insert; "
  "LinkEvent(removed) only in _delete_links, once per link of the argument, paired with a pop per link; withdrawn links are selections from "
  "the adjacency; a lost switch's links are selected on either end; expiry compares timestamp + timeout with now on a recurring timer; "
  "probe writer and reader agree ('dpid:'+hex vs startswith/[5:]/base 16, str(port) vs isdigit/int, TLV order vs indices, textual form "
  "tried before the 8-byte binary fallback, link direction); the flood bit is 'in tree or edge port', the port-mod uses the NO_FLOOD "
  "mask/config and is skipped only when the remembered bit equals the new one; link culling fixes both directions of a switch pair "
  "from the same link object and only from links seen in both directions. Decides these conditions; the forest/spanning property of "
  "_calc_spanning_tree for every graph is NOT decided.",
  "Not decided (declared): exactness of the adjacency w.r.t. a physical network; forest / spanning correctness of the tree traversal for every adjacency (algorithmic, value-level); hold-down timing.",
  "custom AST/CFG checker: ownership, guard dominance, per-iteration effect intervals, writer/reader constant agreement, ordering (dominance) of alternative decoders", "DESIGN.md 5/C19")

prop('C06',
  "Static analysis of /repo's current source: decides structural necessary conditions - Scheduler.cycle's interpretation of each kind of "
  "yielded value (operation, False, 0, positive number, None) reaches exactly the right effect (path-sensitive reachability) and a "
  "0-yield is queued once; t.execute() and rv.execute() sit in catch-alls whose handlers neither re-queue nor re-run the task; every "
  "BlockingOperation.execute in recoco has the number of scheduling effects on all paths that its confirmed resume table states; the "
  "select hub forgets a registration (del tasks[t]) before every resume, treats a deadline as expired only when tto <= now, resumes the "
  "nearest-deadline waiter only when the unmodified select result is empty, and picks up registrations only in the pinger branch; "
  "Timer.run calls back once per wake, re-checks cancel after the wake and leaves the loop for non-recurring / self-stopped timers; "
  "run_again reschedules the caller exactly once after storing result or exception, no closure reads an except-clause name after its "
  "handler; BaseTask.execute resumes the generator at most once and clears rf/re/rv; names are defined. Decides these conditions, not "
  "fairness, wall-clock accuracy, or program order inside user generators.",
  "Not decided: 'eventually run' (randomised priority system), timing accuracy, threaded vs inline hub equivalence, program order inside user generators.",
  "custom AST/CFG checker: effect intervals with callee summaries against a per-operation table, path-sensitive reachability per yielded-value kind, exception containment, must-precede, def-use of select results, definiteness", "DESIGN.md 5/C06")

prop('C07',
  "Static analysis of /repo's current source: interleavings cannot be enumerated statically; the check decides the protocol shape each "
  "clause relies on - the test-and-create of the call-later task lies inside `with self._lock` and each function is handed over once; "
  "callLater appends at the tail before it pings; the consumer waits, clears the wake-up pipe before draining and never after (within one "
  "wake cycle), pops from the head and calls each function at most once inside its own catch-all; fast_schedule queues exactly once "
  "before break_idle; Scheduler.run idles only on an empty queue and re-examines it; idle waits then clears; the 'already queued?' "
  "decision in schedule() is dominated by the thread-affinity test and the off-thread branch only starts a ScheduleTask, which queues "
  "only when not queued; core.call_later/raiseLater only forward to scheduler.callLater; SyncTask takes both locks at construction and "
  "releases inlock before acquiring outlock after one yield, the synchroniser starts then waits and releases on the outermost exit; "
  "cooperative lock: ownership written only by acquire/release, and for each (held, blocking) combination path-sensitive reachability "
  "shows take / park / refuse-without-parking; release pops and schedules at most one waiter and makes it the owner. Decides this shape, "
  "not race freedom over all interleavings.",
  "Not decided: absence of races at bytecode granularity (atomicity of deque/Queue/Event trusted), exactly-once under pre-emption, timing ('noticed without the polling timeout') as a timing statement.",
  "custom AST/CFG checker: lock-region membership, must-precede / never-after ordering, thread-affinity guard dominance, path-sensitive reachability for the lock state table, exception containment", "DESIGN.md 5/C07")

prop('C01',
  "Static analysis of /repo's current source: decides structural necessary conditions of the codec - the message / action / stats / "
  "queue-property registries re-derived from the class decorators equal the OpenFlow 1.0 numbering, directions and list-ness, and the "
  "generated constants equal the spec values; for every codec class of libopenflow_01 the byte layout abstractly interpreted from pack() "
  "equals the one from unpack() item by item (offset, width, field) and the fixed part of both equals the OF 1.0 structure (order, widths, "
  "names, sizeof), __len__'s constant part and _MIN_LENGTH equal sizeof; Nicira _pack_body/_unpack_body (and nx_flow_mod / nxt_packet_in) "
  "layouts agree; length slots are fed by len(self) (or body length + fixed prefix); no int slot is fed by `x or K` with K != 0; "
  "everything concatenated is bytes; codec methods have no undefined name, use-before-assignment, @staticmethod reading self, call with "
  "unbindable arguments, missing method, or write-only private attribute; unpack_new asserts consumed == declared; the NXM table equals "
  "nicira-ext.h with unique (vendor, field); _wire_wildcards/_unwire_wildcards/fix branch on the same ethertypes with inverse bit sets; "
  "ofs_nbits bit-field composites are inverted by the unpack expressions on a sample domain (constant evaluation). Decides these "
  "conditions, not equality of values after a round trip.",
  "Not decided: value-level round trips (wildcard normalisation, max_len rewriting, signed slots for values >= 2^31, nx_match ordering), 64 KiB limits, re-encode equality of values.",
  "custom AST checker: codec byte-layout extraction by abstract interpretation, layout/spec comparison, registry comparison, bytes/str typing, definiteness, sibling-branch symmetry, constant evaluation of bit-field expressions", "DESIGN.md 5/C01")

prop('C03',
  "Static analysis of /repo's current source: decides structural necessary conditions - every match field of ofp_match_data (the 12 spec "
  "fields, each with the specification's wildcard bit; prefix masks/shifts/ALL constants consistent) is compared by matches_with_wildcards "
  "and by __eq__, each comparison pairing the same field on both sides; from_packet's assignments are decided by path-sensitive "
  "reachability under each protocol environment against OF 1.0 section 3.4 (always, untagged, VLAN, IPv4, unfragmented TCP/UDP and ICMP, "
  "first/later/middle fragments -> tp 0/0 and no real ports, ARP, non-ethertype, SNAP) and the lookup extracts with spec_frags and the "
  "ingress port; only add_entry inserts into the table (binary insert keeping descending effective priority, or append+sort "
  "reverse), nobody else sorts/appends/rewrites priority or match; entry_for_packet scans forward, returns the first hit and None only "
  "after the loop; an exact match outranks 0xffff and is_wildcarded evaluates true for every single wildcard bit and partial prefix. "
  "Decides these conditions, not the truth of matching for particular values.",
  "Not decided: truth of matching for particular values (prefix arithmetic in inNetwork, wildcards x frames product), prerequisite semantics.",
  "custom AST/CFG checker: exhaustiveness vs a data table, path-sensitive reachability under protocol environments vs a spec extraction table, ownership of the sorted list, ordered-insert idiom recognition, constant evaluation over all wildcard bits", "DESIGN.md 5/C03")

prop('C14',
  "Static analysis of /repo's current source (partial property): decides structural necessary conditions - for every protocol class of "
  "pox/lib/packet with a struct-based parse()/hdr() pair, each field named on both sides sits at the same byte offset with the same width "
  "and struct code (signedness) and both sides agree on the fixed header size; bit-fields: the word hdr() packs from the fields (constant "
  "propagation through hdr()'s control flow) is inverted by parse()'s extraction expressions on a sample domain derived from the "
  "extraction masks (ipv4 vhl/flags+frag, tcp off/res, vlan pcp/cfi/id, ipv6 version/class/label, mpls, gre ...); length and checksum "
  "fields are assigned in hdr() before the pack, lengths from the payload length; checksums are computed over a copy of the header with "
  "literal 0 in the checksum slot at the same index; UDP/TCP skip words equal (pseudo-header size + checksum offset)/2 from the formats; "
  "checksum() mixes no str with bytes, pads an odd trailing byte as bytes under the odd-length guard, folds the carry twice (or in a loop) "
  "and returns the 16-bit one's complement; the TCP option walker admits a single remaining byte. Decides these conditions, not numeric "
  "checksum results or value round trips.",
  "Not decided: numeric correctness of the one's-complement sum, value round trips, option/TLV encoders (DNS, DHCP, ND options) beyond header formats.",
  "custom AST checker: parse/hdr byte-layout comparison, constant evaluation of bit-field pack/extract expressions over a sample domain, must-precede ordering, format arithmetic, bytes/str typing", "DESIGN.md 5/C14")

prop('C15',
  "Static analysis of /repo's current source (partial property): an interprocedural exception-escape analysis over pox/lib/packet rooted "
  "at ethernet.parse (constructors -> parse, parse_next -> registered ethertype parsers, protocol dispatch, option/TLV helpers). Raising "
  "primitives - struct.unpack / unpack_from reads (need from calcsize and slice bounds), constant and variable indices into the frame "
  "buffer, explicit raises, asserts on wire values, and `from . import X` class-vs-module attribute misuse - must each be proven in "
  "range by dominating length guards or be caught by a try on every call chain from the root (fixpoint over the call graph); slices "
  "handed to struct.unpack have exactly calcsize(fmt) bytes; parse() and hdr() use the same struct code for every field (what parsed can "
  "be re-serialised); __str__ goes through packet_base's catch-all; parser loops are checked for progress. Decides these conditions, "
  "not totality of parsing for every byte string.",
  "Not decided: totality as such (arbitrary attribute errors, arithmetic on parsed values, recursion depth), printing/re-serialisation of partially parsed chains beyond struct codes, dispatch through registries the resolver cannot follow.",
  "custom AST/CFG checker: interprocedural may-raise/escape analysis with try-containment over a resolved call graph, guard dominance with format arithmetic, parse/hdr code agreement", "DESIGN.md 5/C15")


# rules added after the second (unseen) batch of seeded changes and the behaviour-preserving twins (DESIGN 9.7)
ADDED = {
  'C18': "Also: every origin of the reused slot index was selected under a free test of that slot (reaching definitions followed through copies); the allocator refuses a buffer only after the free-slot scan. Third batch: a flow-mod that names a buffer always reaches the use routine; packet-in data length by evaluation over eight scenarios; a free-slot scan starting at remembered state needs every release to move it back. Fourth batch: allocator and use-and-free evaluated on sample pools; set-config stores the miss length it was given.",
  'C13': "Also: the error's xid is decided by evaluation (ofp.xid=4242 -> sent xid 4242); aggregate / description handlers never answer with a list body; the connection's send() writes to the IO worker on every path (no deferred encoding); methods called eagerly on the request object are followed through the codec and pox.lib.util for definite bytes/str type errors. Third batch: helpers that take the request receive the caller's request (xid of error replies). Fourth batch: replacing an entry in a full table draws no error; error codes carried in locals are judged by their origins.",
  'C04': "Argument agreement is decided by evaluating the effective arguments (explicit or callee default) along every path; also: the overlap scan stops early only on the sort key (effective_priority); SEND_FLOW_REM/EMERG handling decided for all four flag combinations; expiry lists as loops or comprehensions. Third batch: no attribute of an entry is a construction-time copy of a replaceable one (stale derived state); the unknown-command path is decided by reachability of further calls. Fourth batch: the expiry sweep evaluated on a sample table; the table-full test follows the removal of the identical entry.",
  'C11': "Also: flow_mod.pack is evaluated under four scenarios (own buffer id, none, buffered / unbuffered packet-in data) for the value in the buffer-id slot and the extra packet-out; the packet-in handed to the controller is truncated only when buffered (rule shared with C18). Third batch: is_complete for a buffered truncated packet-in, fed into packet_out.data and flow_mod.pack, still lets the buffer id through; isBridgeFiltered evaluated on sample addresses. Fourth batch: the buffer allocator evaluated on sample pools (a full pool yields None).",
  'C15': "Also: what parse() extracts from a bit-field word fits back into the word hdr() assembles (sample-domain evaluation); reads that no dominating test - here or at any call site - relates to the buffer's length are violations, other unprovable reads are undecided; ord() of a bytes element, literal %-format arity, the IPv6 available-length clamp and own __str__ methods formatting possibly-None fields. Third batch (E1-E8, pxa/checks/c15b.py): own __str__ neither asserts on nor indexes tables with wire fields; parser/serialiser tuple arity; attributes hdr() reads exist after an early return of parse(); no checksum assert on wire words in hdr(); self-nesting headers contain RecursionError; TLV value slices; TCP options end inside the header; remaining-length accounting in header chains; element reads of fixed slices; one-octet length writes. Fourth batch: E9 decoder-left-None fields, E10 raw MAC bytes.",
  'C14': "Also: parse() and the serialiser cut the fixed header into the same items (LLDP TLV parse/pack pairs included); set_payload re-links a packet payload to its new carrier whatever it was linked to before (source of the pseudo-header). Third batch: checksum() by sample evaluation; the checksummed header copy is built with emission's switches and covers the options emitted beside the fixed fields; UDP zero sum sent as 0xffff; TLV value slices end where the declared length ends. Fourth batch: LLDP TLV header readers evaluated on a 300-byte value; unparsed next-layer objects are replaced by their bytes; serialisers of nested structures free of definite type conflicts; cursor advance names the field just read.",
  'C03': "Also: a sort-key list used for bisecting is updated wherever the table is; the transport prerequisite sets equal the protocols from_packet extracts (1, 6, 17); lookup as loop or next(generator, None); effective_priority decided by evaluating both branches. Third batch: every origin of the looked-up match is from_packet() of this call (no value kept between lookups). Fourth batch: add_entry and entry_for_packet evaluated on sample tables; the vlan parser is registered for 0x8100 only.",
  'C09': "Also: a draining replay loop must pop from the head (arrival order); _connect stores the connection on every path. Fourth batch: read() fetches the handler table per message; registry rules by value.",
  'C06': "Also: an expired waiter's descriptors are not also handed to select(); a relative timer is anchored when started, not when constructed; re-run of a task after its blocking operation decided by evaluating each possible result. Third batch: sys.exc_info() is not deferred into a closure that runs after the handler; Select keeps its timeout argument (evaluated). Fourth batch: a handler-set flag is reset every iteration; epoll modify_table evaluated.",
  'C10': "Also: no swallowing frame lies between the receive handler and the catch-all that closes the worker; `while True` loops are driven by the tests guarding their breaks. Third batch: removals from the loop's worker set tolerate one another; every consume of a declared length is dominated by the arrival test and the receive buffer keeps its underrun test.",
  'C02': "Also: after a handler exception the loop goes on with the next message (error handler summarised per constant reason); the decoder may be fetched into a local first (provenance from the unpacker table). Third batch: the value read() returns when nothing complete is buffered does not make a caller close the connection (D8); the type-indexed decoder table evaluated on a sample registry. Fourth batch: a repeated recv() tolerates EAGAIN.",
  'C05': "Also: no removal hides behind a short-circuit operand; the by-name prefix length is compared symbolically (constant + n*len(prefix)). Third batch: accumulator short-circuits in every EventMixin method; the exception hook does not format the raiser's *args tuple with a fixed number of conversions. Fourth batch: any(<generator>) over table-changing calls; key deletion vs unguarded lookups by type; sort trigger by evaluation.",
  'C08': "Readiness (two named components, every subset registered) and the sweep's fixpoint (second pass iff a waiter fired) are decided by path evaluation, so loops, all()/any() and comprehension forms are alike. Third batch: nothing with an escaping explicit raise precedes raiseEvent(UpEvent()) in stage 2; core.<name> returns a registered component whatever its truth value. Fourth batch: deferral tokens originate from object(); hasComponent is registry membership (evaluated).",
  'C12': "Emission, receive, fragment and rewrite rules use structural matchers and constant propagation (port looked up by `in` or .get(), STP-ness by the comparison with _STP_MAC, selected NO_RECV bit through a local); rewrite targets are followed to their origins; the port-mod mask rule is three-valued. Third batch: checksum() interpreted on samples against an RFC 1071 reference; the loop over a port-mod's mask bits has no early exit. Fourth batch: len(packet) is len(pack()).",
  'C17': "Aggregation is decided by evaluation on sample parts ([a,b]+[c] -> [a,b,c]); reassembly handler reachability with constant propagation. Third batch: lookup of a masked port by number and by name evaluated; keys() evaluated on a sample collection. Fourth batch: reassembly and handler argument by value; the port-status buffer starts at the features reply; no shared class-level mutable state.",
  'C19': "Writer format (dpid 0x1a2b3c -> b'dpid:1a2b3c'), flood bit for each (in tree, edge port) and the links selected for a lost switch (sample adjacency) are decided by evaluation; LinkEvent(added) may be guarded by a flag computed before the insert. Third batch: host-facing ports are answered from the adjacency (or state kept in step with it); _prev[dpid] is forgotten in a connection-up/down handler; TLV type tests and the reverse-link test are recognised structurally. Fourth batch: constructor sets what a property depends on before reading the property.",
  'C20': "The byte count of the direct write is identified structurally (target of the send call), buffer state by value. Third batch: an in-place head cut of the send buffer is accepted when its count can only be what the socket reported for that buffer. Fourth batch: the disconnect state table (a loss first noticed with the event deferred is announced by the later close).",
  'C01': "Also: a sub-object packed with omittable=True must not be counted by the length function; _wire_wildcards gating decided by evaluation per ethertype; pack() assembled from a list of pieces joined at the end is understood. Third batch: byte counts derived from `length`/`avail` contain buffer positions only as differences (R-UNITS); zero-padded strings use one total single-byte codec on both sides. Fourth batch: _packzs on samples; no message-level omittable=True; pack cache holds unconsumed input bytes; pack gating by evaluation of the struct.pack arguments.",
  'C07': "The dequeued function may be element 0 of the popped item or the first name of a tuple-unpacking pop. Third batch: ping() writes whatever the pinger's own state; synchronized() hands out a fresh or thread-local synchroniser. Fourth batch: pong reads once; creation of the call-later task under the lock after a None test made under the lock.",
}
# rules added in response to the fifth and sixth batches (DESIGN 9.15, 9.17)
ADDED56 = {
  'C01': "Fifth batch: default of nx_match's `omittable`; the vendor hook reads only what every vendor message has until the vendor is known. Sixth batch: a store to a lazily packed field resets the packed copy; class-level len() fallback catches what the classes used with it raise; pack gating per (ethertype, IP protocol).",
  'C02': "Fifth batch: each message is dispatched through the connection's current handler table. Sixth batch: the cursor has advanced also on paths through an exception handler back to the loop head (exception edges); decoders never size a read by the length of the buffer they are handed; peek / consume / read of the IO worker evaluated on a sample buffer.",
  'C03': "Fifth batch: the entry used for a frame comes from a lookup made for that frame; from_packet on boundary ethertypes. Sixth batch: is_exact / is_wildcarded evaluated on sample matches (complementary, partial prefixes count as wildcarded).",
  'C04': "Fifth batch: effective_priority by evaluation. Sixth batch: results of helpers that return generator expressions are not used as containers; subsumption is reflexive (equality shortcut, or a prefix test that masks both sides).",
  'C05': "Fifth batch: CallProxy hands back the handler's result; arguments passed on by name reach the parameter of that name. Sixth batch: removeListener evaluated on a sample table with the first id the generator hands out; dispatch loop recognised in entry-variable form.",
  'C06': "Fifth batch: epoll masks follow the lists of the current call; exception containment of a sub-task's close(). Sixth batch: the wake-up primitive's rules and the hub's clear-before-pick-up order (shared with C07).",
  'C07': "Sixth batch: every function handed over is run (a wake-up drains the whole queue, or one byte is read per function and ping() can neither skip nor swallow its write); the select hub clears the wake-up pipe before it picks up new registrations.",
  'C08': "Fifth batch: hasComponent of a falsy registered component; mutable default arguments are not changed in place.",
  'C09': "Fifth batch: the once-flag is set only on paths that raise ConnectionDown. Sixth batch: the handshake's port-status handler evaluated on sample buffers (an equal message is buffered too); the barrier attribute is derived from the code.",
  'C10': "Fifth batch: a message handler never closes the connection's socket itself. Sixth batch: R-PROGRESS with exception edges; message decoders that size a read by `length - K` test the declared length (R-SIB); buffer-length-sized reads (shared with C02); error-handler results decided by evaluation.",
  'C11': "Fifth batch: value-based forwarding rules (lookup result dominance, packet_out.data copy condition by evaluation).",
  'C12': "Fifth batch: ethernet.__len__ measures pack(); packet-in length scenarios. Sixth batch: ofp_phy_port.set_config evaluated on a sample port and fed to _set_port_config_bit - only a PORT_DOWN change reaches the link-state block.",
  'C13': "Fifth batch: OFPST_FLOW out_port filter; error data is the offending request only. Sixth batch: no request-keyed lookup in a module-level table on the way to an error reply.",
  'C14': "Fifth batch: LLC control field re-emitted as consumed; surviving stores. Sixth batch: skip word per mode by evaluation and a zero checksum field in the summed header on emission; set_payload writes only self.next / payload.prev; payload presence is not decided by truth value.",
  'C15': "Fifth batch: DHCP option parts fit their length octet; logging shortcuts do not format caller text. Sixth batch: dispatch through tables of classes, decorator registries and mixin constructors is resolved (ICMPv6 message classes, NDP options, MPTCP options, IPv6 extension headers); KeyError of wire-keyed table lookups; E13 printing / serialising methods use only names and attributes that exist, E14 dispatch-table classes can be re-serialised, E15 constructors initialise the base state.",
  'C17': "Fifth batch: only the reassembly writes the list of collected parts. Sixth batch: the former name of a modified port is not found (evaluated on a sample view); early port-status buffering by evaluation.",
  'C18': "Sixth batch: the buffer id a packet-in announces originates from the allocator; mirrored sample pool for the use-and-free routine; truncation / total_len decided by evaluation when the statement is not recognised.",
  'C19': "Fifth batch: the handler that forgets remembered flood bits is subscribed in every mode; the recurring timer's callback never returns False. Sixth batch: every link event recomputes the tree; per-dpid discovery state is withdrawn only when the connection that went down is the registered one.",
  'C20': "Sixth batch: the closed flag is set before the close handlers run; facts independent of local variable names.",
}
# seventh batch (DESIGN 9.19): rules for code outside the named mechanisms, and obligations shared between properties (ctx.include)
ADDED7 = {
  'C01': "Seventh batch: IPAddr.toSigned evaluated on sample addresses (signed slot of nw-addr actions); vendor hook positions relative to the message; stats list-ness by replaying registrations in source order.",
  'C02': "Seventh batch: every caller of the decoder-table builder gets its own list; shares C01's rules about the vendor decode hook.",
  'C03': "Seventh batch: a cloned match keeps the wildcard word.",
  'C04': "Seventh batch: the table-modification handler never asks revent to unsubscribe it; the MODIFY update loop may live in the table class (callee summary); shares C03's rules about subsumption / exactness / effective priority.",
  'C05': "Seventh batch: handler-return shortcut values evaluated against the dispatch protocol; exception hooks use their argument as it is passed.",
  'C06': "Seventh batch: reporting a failed task is itself contained (or every task __str__ is total); shares C07's rules about scheduling from another thread.",
  'C07': "Seventh batch: no falsy task class while the lock tests its owner by truth value; break_idle signals on every path.",
  'C08': "Seventh batch: each get_deferral takes out a new deferral; shares C05's rules about raiseEventNoErrors and its hooks.",
  'C09': "Seventh batch: str(connection) is total and the DPID formatter is evaluated on sample DPIDs.",
  'C10': "Seventh batch: str(connection) totality (the task's own except clause logs it); shares C01's rules about the vendor decode hook.",
  'C11': "Seventh batch: shares C09's rules about Connection.read, C13's about the flow-mod handler and the printers it evaluates, C18's about the buffer routines.",
  'C12': "Seventh batch: no truth tests on packet objects; shares C18's rules about the use-and-free routine.",
  'C13': "Seventh batch: printing methods evaluated eagerly by request handlers are total on wire values; _validate of request classes rejects no value ranges (send_error re-packs the request); shares C02's rules about the switch-side read loop.",
  'C14': "Seventh batch: DirtyDict compares before it stores; the datagram id counter stays within 16 bits; the unparsed-payload fallback depends on the parsed flag alone; cross-module pseudo-header helpers are evaluated.",
  'C15': "Seventh batch: symbolic shortfall for sequences walked by index; address printers (max/min over loop-built lists); collected TCP options are option objects.",
  'C17': "Seventh batch: raises inside event-class helpers are followed; shares C05's rules about the dispatch loop and C09's about the replay of early port status.",
  'C18': "Seventh batch: packet-in data is the frame's current bytes; no truth tests on packet objects.",
  'C19': "Seventh batch: is_edge_port evaluated on a sample adjacency; shares C17's rules about the port view and C09's about disconnect / registry.",
  'C20': "Seventh batch: str(connection) totality on the error paths; the global `sending` flag is cleared only under the empty-map test; shares C09's rules about the disconnect state machine.",
}
# eighth batch (DESIGN 9.21/9.22): value-level / failure-path / second-use changes; representation changes and renamed private members
ADDED8 = {
  'C01': "Eighth batch: shares C02's rule that every call of the decoder-table builder returns a new list.",
  'C02': "Eighth batch: advance counts are recounted path-sensitively (flags of an inlined helper) and no handler path advances twice; the wire length is read with an unsigned 16-bit code; the switch-side receive buffer may be a property over a bytearray (rules follow the attribute, evaluation handles del of a slice).",
  'C03': "Eighth batch: a lookup memo keyed by a hash of the header fields is refused; shares C04's rules about the ADD path (a refused flow-mod changes nothing).",
  'C04': "Eighth batch: the switch subscribes to its table once, where the table is created; expiry classification by a helper is decided by the sample sweep.",
  'C05': "Eighth batch: the suppressing handler is total (bare / BaseException); setting event.halt and every removeListener identifier form decided by evaluation (lambdas supported).",
  'C06': "Eighth batch: the default wait replaces the select timeout only when no waiter has a deadline; the epoll apply stage evaluated on sample masks; hand-over buffer as Queue or deque; done-flags decide use-before-assignment.",
  'C07': "Eighth batch: the per-callback handler of the call-later task is total (bare / BaseException).",
  'C08': "Eighth batch: reporting a failed callback is contained; a component's presence is tested with `is None`; the caller's set of names is copied before it is added to; the names a waiter waits for evaluated on samples incl. the empty ones (guards fix 027f8d0).",
  'C09': "Eighth batch: buffering of early port status decided by evaluation for list and tuple representations.",
  'C10': "Eighth batch: an error handler that asks to carry on does not stop the switch's read loop; the protocol version is examined per message at the cursor.",
  'C11': "Eighth batch: a learning switch re-attached to a new connection also sends over it.",
  'C12': "Eighth batch: shares C14's rules about the UDP/TCP checksum routines.",
  'C13': "Eighth batch: a failing decode in the switch's read loop is contained and refused with an error (guards fix 04e5098); remembered query results are reset by every writer (R-CACHE).",
  'C14': "Eighth batch: sample round trip hdr() -> parse() by evaluation (vxlan VNI incl. 0 and None); shares C15's rules about the TCP decoders.",
  'C15': "Eighth batch: a mutable default argument is not kept as instance state that is changed in place (E18).",
  'C17': "Eighth batch: remembered values of the port view are reset by every writer of what they were computed from (R-CACHE); 'nothing pending' may be [] or None; raises through plain helper functions are followed.",
  'C18': "Eighth batch: the pool is driven through a history by evaluation of its own two operations from the constructor's state (pools of two and three), independent of its representation; the list-form rules apply to the list form only.",
  'C19': "Eighth batch: a failed port-mod is not remembered as sent; the bidirectional test may be recorded in a local first.",
  'C20': "Eighth batch: the would-block path of send_fast queues the data (by evaluation through the handler); _sliceup evaluated on sample lengths incl. exact multiples of the piece size.",
}
# ninth batch (DESIGN 9.23/9.24): two cooperating sites / histories / unusual inputs; larger twins (idiom, additions, boundary, representation)
ADDED9 = {
  'C01': "Ninth batch: R-DIM - in every decoder positions in the buffer and sizes are different dimensions (a position compared with a size, size - position, a position passed as a size are right only at position 0); a message decoder accounts for the declared length (asserts it or returns start + length).",
  'C02': "Ninth batch: shares C01's decoder rules (R-DIM, declared length); the whole-message rule falls back from dominance to enumeration of the feasible paths.",
  'C04': "Ninth batch: selection by predicate examines every entry (the table is ordered by effective priority, not by the priority field).",
  'C05': "Ninth batch: once an event type has prioritised handlers that is not forgotten (a lazily cleared flag must be set again by every subscription).",
  'C09': "Ninth batch: a handler object shared by all connections keeps no per-handshake state; the presence of a datapath id is never decided by its truth value.",
  'C10': "Ninth batch: shares C01's decoder rules (R-DIM, declared length).",
  'C11': "Ninth batch: the address table only learns (nothing removes a learned address).",
  'C15': "Ninth batch: assertions that restate a dominating guard or an unsigned field's range are not raising sites; a parser loop's remaining-bytes budget follows the cursor; an address object built for display from frame bytes needs a length test; shares C14's rules about what ipv4 / ipv6 parse leave as the next layer.",
  'C06': "Ninth batch: the epoll adapter's descriptor -> object map is written for every listed object.",
  'C12': "Ninth batch: the receive rules hold with every other configuration flag set as well; shares C14's rule that the IPv4 checksum covers what hdr() emits.",
  'C13': "Ninth batch: R-CACHE also covers memo tables keyed by the query.",
  'C14': "Ninth batch: every attribute ipv4.hdr() emits is read by what ipv4.checksum() sums.",
  'C17': "Ninth batch: shares C01's evaluation of the fixed-width string reader / writer (port names).",
}
for _d in (ADDED, ADDED56, ADDED7, ADDED8, ADDED9):
  for _k, _v in _d.items():
    if _k in P: P[_k]['text'] = P[_k]['text'] + " " + _v

NOT_APPLICABLE = {
  'C16': "Address types: the statement is about numeric/textual agreement over the whole address domain (byte order, mask arithmetic, CIDR parsing, zero-run compression, round trips, rejection of malformed text) - results of computations on runtime values; no shape-level rule is a necessary and telling condition for it (DESIGN.md section 7).",
}
CLAIMED = sorted(P)
