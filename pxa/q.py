"""Query helpers used by the per-property checks: cached CFGs, semantic
matchers over expressions, guard facts, store/load sites, simple def-use."""
import ast
from .cfg import CFG
from .model import (AnalysisError, Func, Cls, walk_no_nested, calls_in, call_name,
                    dotted, kwarg, norm)

_cfgs = {}
def cfg_of (f):
  node = f.node if isinstance(f, Func) else f
  g = _cfgs.get(id(node))
  if g is None:
    g = _cfgs[id(node)] = CFG(node)
  return g

def nested_defs (fnode):
  """direct nested function defs / lambdas assigned to names: name -> node"""
  out = {}
  for n in walk_no_nested(fnode):
    if isinstance(n, (ast.FunctionDef, ast.AsyncFunctionDef)):
      out[n.name] = n
  return out

def all_nested_defs (fnode):
  out = {}
  for n in ast.walk(fnode):
    if n is not fnode and isinstance(n, (ast.FunctionDef, ast.AsyncFunctionDef)):
      out[n.name] = n
  return out

# ---------------------------------------------------------------------------
# expression matchers

def is_self_attr (e, attr=None, base='self'):
  return isinstance(e, ast.Attribute) and isinstance(e.value, ast.Name) and \
         e.value.id == base and (attr is None or e.attr == attr)

def attr_chain_ends (e, attr):
  """expression is <anything>.attr"""
  return isinstance(e, ast.Attribute) and e.attr == attr

def mentions (e, pred):
  return any(pred(x) for x in ast.walk(e))

def mentions_name (e, name):
  return any(isinstance(x, ast.Name) and x.id == name for x in ast.walk(e))

def mentions_attr (e, attr):
  return any(isinstance(x, ast.Attribute) and x.attr == attr for x in ast.walk(e))

def names_in (e):
  return set(x.id for x in ast.walk(e) if isinstance(x, ast.Name))

_FLIP = {ast.Lt: ast.Gt, ast.Gt: ast.Lt, ast.LtE: ast.GtE, ast.GtE: ast.LtE,
         ast.Eq: ast.Eq, ast.NotEq: ast.NotEq}
_NEG = {ast.Lt: ast.GtE, ast.GtE: ast.Lt, ast.Gt: ast.LtE, ast.LtE: ast.Gt,
        ast.Eq: ast.NotEq, ast.NotEq: ast.Eq, ast.In: ast.NotIn, ast.NotIn: ast.In,
        ast.Is: ast.IsNot, ast.IsNot: ast.Is}
_SYM = {ast.Lt: '<', ast.Gt: '>', ast.LtE: '<=', ast.GtE: '>=', ast.Eq: '==',
        ast.NotEq: '!=', ast.In: 'in', ast.NotIn: 'not in', ast.Is: 'is', ast.IsNot: 'is not'}

def facts_of (test, polarity):
  """Normalise an atomic test under a polarity into a list of facts
  (lhs_ast, opsym, rhs_ast).  Non-comparisons give (expr, 'truthy'|'falsy', None).
  Chained comparisons are split."""
  out = []
  if isinstance(test, ast.Compare):
    if len(test.ops) > 1 and not polarity:
      return [(test, 'falsy', None)]     # negation of a conjunction: no single fact
    left = test.left
    for op, right in zip(test.ops, test.comparators):
      o = type(op)
      if not polarity: o = _NEG.get(o, None)
      if o is None: out.append((test, 'truthy' if polarity else 'falsy', None))
      else: out.append((left, _SYM[o], right))
      left = right
    return out
  return [(test, 'truthy' if polarity else 'falsy', None)]

def flip (sym):
  return {'<': '>', '>': '<', '<=': '>=', '>=': '<=', '==': '==', '!=': '!='}.get(sym)

def guard_facts (g, node, exc=True):
  """all facts holding at node by dominance: [(lhs, op, rhs, branch_node)]"""
  out = []
  for test, pol, b in g.guards(node, exc=exc):
    if isinstance(test, (ast.For, ast.AsyncFor)): continue
    for (l, o, r) in facts_of(test, pol):
      out.append((l, o, r, b))
  return out

def fact_strs (g, node, exc=True):
  out = []
  for l, o, r, b in guard_facts(g, node, exc):
    if r is None: out.append("%s:%s" % (norm(l), o))
    else: out.append("%s %s %s" % (norm(l), o, norm(r)))
  return out

# ---------------------------------------------------------------------------
# sites

def stores_in (fnode, nested=True):
  """yield (target_expr, value_expr_or_None, stmt, kind) for every store in a
  function: kind in assign / augassign / del / for / with"""
  it = ast.walk(fnode) if nested else walk_no_nested(fnode)
  for n in it:
    if isinstance(n, ast.Assign):
      for t in n.targets:
        for tt in _flatten(t): yield tt, n.value, n, 'assign'
    elif isinstance(n, ast.AugAssign):
      yield n.target, n.value, n, 'augassign'
    elif isinstance(n, ast.AnnAssign) and n.value is not None:
      yield n.target, n.value, n, 'assign'
    elif isinstance(n, ast.Delete):
      for t in n.targets: yield t, None, n, 'del'
    elif isinstance(n, (ast.For, ast.AsyncFor)):
      for tt in _flatten(n.target): yield tt, None, n, 'for'
    elif isinstance(n, ast.NamedExpr):
      yield n.target, n.value, n, 'assign'

def _flatten (t):
  if isinstance(t, (ast.Tuple, ast.List)):
    for e in t.elts:
      for x in _flatten(e): yield x
  elif isinstance(t, ast.Starred):
    for x in _flatten(t.value): yield x
  else:
    yield t

MUTATORS = ('append', 'appendleft', 'insert', 'extend', 'extendleft', 'sort', 'reverse', 'remove', 'pop',
            'popleft', 'clear', 'add', 'discard', 'update', 'setdefault', 'popitem', '__setitem__',
            '__delitem__', 'rotate')

def mutations_of_attr (fnode, attr, base=None):
  """sites in fnode that write or mutate <base>.attr (base None: any base).
  yields (kind, node) with kind in rebind / setitem / delitem / call:<method> / augassign"""
  def is_target (e):
    return isinstance(e, ast.Attribute) and e.attr == attr and \
           (base is None or (isinstance(e.value, ast.Name) and e.value.id == base))
  for t, v, st, k in stores_in(fnode):
    if is_target(t):
      yield ('augassign' if k == 'augassign' else ('del' if k == 'del' else 'rebind')), st
    elif isinstance(t, ast.Subscript) and is_target(t.value):
      yield ('delitem' if k == 'del' else 'setitem'), st
  for c in calls_in(fnode, nested=True):
    if isinstance(c.func, ast.Attribute) and c.func.attr in MUTATORS and is_target(c.func.value):
      yield 'call:' + c.func.attr, c

def enclosing_stmt_node (g, astnode):
  """CFG node whose statement contains astnode"""
  for n in g.nodes:
    if n.ast is None: continue
    a = n.ast
    if n.kind == 'for':
      continue
    if n.kind == 'def': continue
    if isinstance(a, ast.With):
      for i in a.items:
        if any(x is astnode for x in ast.walk(i)): return n
      continue
    if a is astnode or any(x is astnode for x in walk_no_nested(a)): return n
  return None

def node_calls (n):
  """Call nodes evaluated by CFG node n itself"""
  a = n.ast
  if a is None or n.kind in ('def', 'branch', 'handler'): return []
  if n.kind == 'for': return []
  if isinstance(a, ast.With):
    out = []
    for i in a.items: out += list(calls_in(i.context_expr))
    return out
  return list(calls_in(a))

def reaching_assign (fnode, name):
  """all values assigned to local `name` in fnode (flow-insensitive)"""
  out = []
  for t, v, st, k in stores_in(fnode, nested=False):
    if isinstance(t, ast.Name) and t.id == name: out.append((v, st, k))
  return out

def single_def (fnode, name):
  d = reaching_assign(fnode, name)
  if len(d) == 1 and d[0][2] == 'assign': return d[0][0]
  # the same definition written out in several branches (duplicated by the inlining of a helper's early returns) is one definition
  if len(d) > 1 and all(k_ == 'assign' and v_ is not None for v_, s_, k_ in d) and len(set(norm(v_) for v_, s_, k_ in d)) == 1: return d[0][0]
  return None

def find_method (repo, cls, name, where='?'):
  f = cls.find_method(name)
  if f is None:
    raise AnalysisError("anchor vanished: %s.%s (%s)" % (cls.name, name, where))
  return f

def returns_of (fnode):
  return [n for n in walk_no_nested(fnode) if isinstance(n, ast.Return)]

def is_generator (fnode):
  return any(isinstance(n, (ast.Yield, ast.YieldFrom)) for n in walk_no_nested(fnode))

# ---------------------------------------------------------------------------
# tiny linear view of index expressions: value = <base> + const

def linear (e, fnode=None, _depth=0):
  """(base_text, offset) for expressions of the form base, base+k, base-k,
  k+base; local names with exactly one definition of that form are followed.
  base_text None for pure constants."""
  if isinstance(e, ast.Constant) and isinstance(e.value, int) and not isinstance(e.value, bool):
    return (None, e.value)
  if isinstance(e, ast.UnaryOp) and isinstance(e.op, ast.USub):
    b, k = linear(e.operand, fnode, _depth)
    if b is None: return (None, -k)
  if isinstance(e, ast.BinOp) and isinstance(e.op, (ast.Add, ast.Sub)):
    lb, lk = linear(e.left, fnode, _depth); rb, rk = linear(e.right, fnode, _depth)
    sign = 1 if isinstance(e.op, ast.Add) else -1
    if rb is None: return (lb, lk + sign * rk)
    if lb is None and sign == 1: return (rb, lk + rk)
  if isinstance(e, ast.Name) and fnode is not None and _depth < 4:
    d = reaching_assign(fnode, e.id)
    if len(d) == 1 and d[0][2] == 'assign' and d[0][0] is not None and not mentions_name(d[0][0], e.id):
      b, k = linear(d[0][0], fnode, _depth + 1)
      if b is not None and _is_simple_linear(d[0][0]): return (b, k)
  return (norm(e), 0)

def _is_simple_linear (e):
  if isinstance(e, (ast.Name, ast.Attribute)): return True
  if isinstance(e, ast.BinOp) and isinstance(e.op, (ast.Add, ast.Sub)):
    return _is_simple_linear(e.left) and isinstance(e.right, ast.Constant) or \
           (isinstance(e.left, ast.Constant) and _is_simple_linear(e.right) and isinstance(e.op, ast.Add))
  return False

def bounds_from_facts (facts, base, fnode=None):
  """From guard facts derive for expression `base` (text): (lower_const,
  [(upper_text, strict_offset)]) such that base >= lower_const and
  base < upper_text + strict_offset.  Only facts whose one side is linear in
  `base` are used."""
  lower = None; uppers = []
  for l, o, r, b in facts:
    if r is None or o not in ('<', '<=', '>', '>=', '=='): continue
    lb, lk = linear(l, fnode); rb, rk = linear(r, fnode)
    # normalise to: base OP other + k
    if lb == base and rb != base:
      op = o; ob, k = rb, rk - lk
    elif rb == base and lb != base:
      op = flip(o); ob, k = lb, lk - rk
    else: continue
    if ob is None:      # constant bound
      if op == '>=': lower = k if lower is None else max(lower, k)
      elif op == '>': lower = k + 1 if lower is None else max(lower, k + 1)
      elif op == '==': lower = k if lower is None else max(lower, k)
      if op == '<': uppers.append((None, k))
      elif op == '<=': uppers.append((None, k + 1))
    else:
      if op == '<': uppers.append((ob, k))
      elif op == '<=': uppers.append((ob, k + 1))
  return lower, uppers

# ---------------------------------------------------------------------------
# evaluating a test under a constant substitution

class _Unknown(Exception): pass

def eval_expr (repo, module, e, env, cls=None):
  """evaluate expression with env {expr_text: value}; raises _Unknown"""
  t = norm(e)
  if t in env: return env[t]
  if isinstance(e, ast.Constant): return e.value
  if isinstance(e, ast.Tuple): return tuple(eval_expr(repo, module, x, env, cls) for x in e.elts)
  if isinstance(e, ast.List): return [eval_expr(repo, module, x, env, cls) for x in e.elts]
  if isinstance(e, ast.Set): return set(eval_expr(repo, module, x, env, cls) for x in e.elts)
  if isinstance(e, ast.UnaryOp):
    v = eval_expr(repo, module, e.operand, env, cls)
    if isinstance(e.op, ast.Not): return not v
    if isinstance(e.op, ast.USub): return -v
    if isinstance(e.op, ast.Invert): return ~v
  if isinstance(e, ast.BoolOp):
    vals = [eval_expr(repo, module, x, env, cls) for x in e.values]
    if isinstance(e.op, ast.And):
      r = True
      for v in vals:
        r = v
        if not v: break
      return r
    r = False
    for v in vals:
      r = v
      if v: break
    return r
  if isinstance(e, ast.BinOp):
    a = eval_expr(repo, module, e.left, env, cls); b = eval_expr(repo, module, e.right, env, cls)
    try:
      op = type(e.op)
      if op is ast.Add: return a + b
      if op is ast.Sub: return a - b
      if op is ast.BitAnd: return a & b
      if op is ast.BitOr: return a | b
      if op is ast.LShift: return a << b
      if op is ast.RShift: return a >> b
      if op is ast.Mult: return a * b
      if op is ast.Mod and isinstance(a, (str, bytes, int)): return a % b
      if op is ast.FloorDiv: return a // b
      if op is ast.BitXor: return a ^ b
    except Exception: raise _Unknown()
  if isinstance(e, ast.Compare):
    left = eval_expr(repo, module, e.left, env, cls)
    for op, rt in zip(e.ops, e.comparators):
      right = eval_expr(repo, module, rt, env, cls)
      o = type(op)
      try:
        ok = {ast.Eq: lambda: left == right, ast.NotEq: lambda: left != right, ast.Lt: lambda: left < right,
              ast.LtE: lambda: left <= right, ast.Gt: lambda: left > right, ast.GtE: lambda: left >= right,
              ast.In: lambda: left in right, ast.NotIn: lambda: left not in right,
              ast.Is: lambda: left is right, ast.IsNot: lambda: left is not right}[o]()
      except Exception: raise _Unknown()
      if not ok: return False
      left = right
    return True
  v = repo.try_const(module, e, cls, default=_Unknown)
  if v is _Unknown: raise _Unknown()
  return v

def eval_test (repo, module, test, env, cls=None):
  """True / False / None (unknown)"""
  try: return bool(eval_expr(repo, module, test, env, cls))
  except _Unknown: return None
  except Exception: return None

def reachable_under (repo, module, g, node, env, cls=None):
  """is `node` reachable given that expressions in env have the given constant
  values?  Uses only the dominating guards: returns False when some dominating
  guard evaluates (under env) to the opposite of the polarity it was passed
  with, True otherwise."""
  for test, pol, b in g.guards(node):
    if isinstance(test, (ast.For, ast.AsyncFor)): continue
    v = eval_test(repo, module, test, env, cls)
    if v is None: continue
    if v != pol: return False
  return True

# ---------------------------------------------------------------------------
# path-sensitive reachability under an environment

class Env(object):
  """Assignment of values to expressions.  Keys are expression texts or
  matcher callables (ast -> bool).  A value may be any Python object; use
  truthy/falsy ints or bools for predicates."""
  def __init__ (self, exact=None, matchers=None, call_hook=None):
    self.exact = dict(exact or {}); self.matchers = list(matchers or [])
    self.call_hook = call_hook     # callable(ast.Call) -> (hit, value): summaries of resolved callees
  def lookup (self, e):
    t = norm(e)
    if t in self.exact: return True, self.exact[t]
    for m, v in self.matchers:
      try:
        if m(e): return True, v
      except Exception: pass
    # a comparison whose negation (or mirror image) is bound decides this one too
    if isinstance(e, ast.Compare) and len(e.ops) == 1:
      o = type(e.ops[0])
      if o in _NEG:
        neg = ast.Compare(left=e.left, ops=[_NEG[o]()], comparators=e.comparators)
        hit, v = self._plain(neg)
        if hit and isinstance(v, (bool, int)) and not isinstance(v, _Opaque): return True, not v
      if o in _FLIP:
        mir = ast.Compare(left=e.comparators[0], ops=[_FLIP[o]()], comparators=[e.left])
        hit, v = self._plain(mir)
        if hit: return True, v
        if _FLIP[o] in _NEG:
          mneg = ast.Compare(left=e.comparators[0], ops=[_NEG[_FLIP[o]]()], comparators=[e.left])
          hit, v = self._plain(mneg)
          if hit and isinstance(v, (bool, int)) and not isinstance(v, _Opaque): return True, not v
    return False, None
  def _plain (self, e):
    t = norm(e)
    if t in self.exact: return True, self.exact[t]
    for m, v in self.matchers:
      try:
        if m(e): return True, v
      except Exception: pass
    return False, None

def eval_env (repo, module, e, env, cls=None):
  hit, v = env.lookup(e)
  if hit:
    if v is globals().get('OPAQUE'): raise _Unknown()
    return v
  if isinstance(e, ast.Constant): return e.value
  if isinstance(e, ast.Call) and isinstance(e.func, ast.Name) and e.func.id == 'bool' and len(e.args) == 1 and not e.keywords:
    return bool(eval_env(repo, module, e.args[0], env, cls))
  if isinstance(e, ast.IfExp):
    return eval_env(repo, module, e.body if eval_env(repo, module, e.test, env, cls) else e.orelse, env, cls)
  if isinstance(e, (ast.Tuple, ast.List, ast.Set)):
    vals = [eval_env(repo, module, x, env, cls) for x in e.elts]
    return tuple(vals) if isinstance(e, ast.Tuple) else (list(vals) if isinstance(e, ast.List) else set(vals))
  if isinstance(e, ast.UnaryOp):
    v = eval_env(repo, module, e.operand, env, cls)
    if isinstance(e.op, ast.Not): return not v
    if isinstance(e.op, ast.USub): return -v
    if isinstance(e.op, ast.Invert): return ~v
  if isinstance(e, ast.BoolOp):
    r = None
    for x in e.values:
      try: v = eval_env(repo, module, x, env, cls)
      except _Unknown:
        # and: a later false decides; or: a later true decides
        r = _Unknown; continue
      if isinstance(e.op, ast.And) and not v: return v
      if isinstance(e.op, ast.Or) and v: return v
      if r is not _Unknown: r = v
    if r is _Unknown: raise _Unknown()
    return r
  if isinstance(e, ast.BinOp):
    a = eval_env(repo, module, e.left, env, cls); b = eval_env(repo, module, e.right, env, cls)
    try:
      op = type(e.op)
      if op is ast.Add: return a + b
      if op is ast.Sub: return a - b
      if op is ast.BitAnd: return a & b
      if op is ast.BitOr: return a | b
      if op is ast.LShift: return a << b
      if op is ast.RShift: return a >> b
      if op is ast.Mult: return a * b
      if op is ast.Mod and isinstance(a, (str, bytes, int)) and not isinstance(a, bool): return a % b
      if op is ast.FloorDiv: return a // b
      if op is ast.BitXor: return a ^ b
    except Exception: raise _Unknown()
  if isinstance(e, ast.Compare):
    left = eval_env(repo, module, e.left, env, cls)
    for op, rt in zip(e.ops, e.comparators):
      right = eval_env(repo, module, rt, env, cls)
      o = type(op)
      try:
        ok = {ast.Eq: lambda: left == right, ast.NotEq: lambda: left != right, ast.Lt: lambda: left < right,
              ast.LtE: lambda: left <= right, ast.Gt: lambda: left > right, ast.GtE: lambda: left >= right,
              ast.In: lambda: left in right, ast.NotIn: lambda: left not in right,
              ast.Is: lambda: left is right, ast.IsNot: lambda: left is not right}[o]()
      except Exception: raise _Unknown()
      if not ok: return False
      left = right
    return True
  v = repo.try_const(module, e, cls, default=_Unknown)
  if v is _Unknown: raise _Unknown()
  return v

def reach_under (repo, module, g, env, cls=None, start=None, exc=False, local_defs=None):
  """nodes reachable from entry when every atomic test that evaluates under
  `env` takes only its evaluated branch.  Local names with a single constant-
  evaluable definition are NOT followed (keep env explicit)."""
  start = start or g.entry
  seen = set([start]); st = [start]
  while st:
    n = st.pop()
    succ = n.succ
    if n.kind == 'cond':
      try: v = bool(eval_env2(repo, module, n.ast, env, cls))
      except _Unknown: v = None
      except Exception: v = None
      if v is not None:
        succ = [(m, l) for m, l in n.succ if l == v or l == 'exc']
    for m, l in succ:
      if l == 'exc' and not exc: continue
      if m not in seen: seen.add(m); st.append(m)
  return seen

def final_stores_under (repo, module, g, env, keyof, cls=None):
  """among the nodes reachable under `env` (as reach_under), those for which keyof(node) gives a key and from which the exit
  can be reached along env-feasible edges without passing another node of the same key: the stores whose value survives.
  Returns {node: key}"""
  def fsucc (n):
    succ = n.succ
    if n.kind == 'cond':
      try: v = bool(eval_env2(repo, module, n.ast, env, cls))
      except Exception: v = None
      if v is not None: succ = [(m, l) for m, l in n.succ if l == v]
    return [m for m, l in succ if l != 'exc']
  seen = set([g.entry]); st = [g.entry]
  while st:
    n = st.pop()
    for m in fsucc(n):
      if m not in seen: seen.add(m); st.append(m)
  keys = {}
  for n in seen:
    k = keyof(n)
    if k is not None: keys[n] = k
  out = {}
  for n, k in keys.items():
    vis = set(); st = list(fsucc(n)); hit = False
    while st and not hit:
      m = st.pop()
      if m in vis: continue
      vis.add(m)
      if m is g.exit: hit = True; break
      if keys.get(m) == k: continue
      st.extend(fsucc(m))
    if hit: out[n] = k
  return out

# ---------------------------------------------------------------------------
# constant propagation along enumerated paths

_BUILTIN_VALUES = {'tuple': tuple, 'list': list, 'dict': dict, 'int': int, 'float': float, 'str': str, 'bytes': bytes,
                   'bool': bool, 'True': True, 'False': False, 'None': None, 'set': set}

# definite failures met while evaluating on known values: a builtin / struct / pure-method call whose arguments were all known and which
# raised.  Rules that ask "can this helper fail on that sample?" clear the list, evaluate the scenario, and look.  (text of the call, exception)
RAISED = []
def _note_raise (e, args, ex):
  try:
    if all(a is not OPAQUE for a in args): RAISED.append((norm(e)[:80], type(ex).__name__, str(ex)[:80]))
  except Exception: pass

class LambdaVal(object):
  """value of a lambda expression (kept unevaluated; see _eval_call)"""
  def __init__ (self, node): self.node = node
  def __repr__ (self): return '<lambda %s>' % norm(self.node)[:40]

def _eval_call (repo, module, e, env, cls):
  fn = e.func
  hook = getattr(env, 'call_hook', None)
  if hook is not None:
    if getattr(hook, 'wants_env', False): hit, v = hook(e, env)
    else: hit, v = hook(e)
    if hit: return v
  if isinstance(fn, ast.Name) and not e.keywords and isinstance(env.exact.get(fn.id), LambdaVal):
    # a local bound to a lambda with plain positional parameters: its body evaluated with the arguments bound (free names are read
    # from the current environment - the enclosing function's locals at the time of the call)
    lam = env.exact[fn.id].node
    ps_ = lam.args
    if not (ps_.vararg or ps_.kwarg or ps_.kwonlyargs or ps_.defaults or ps_.posonlyargs) and len(ps_.args) == len(e.args) and not any(isinstance(a, ast.Starred) for a in e.args):
      sub = Env(dict(env.exact), list(env.matchers), hook)
      for pa_, a_ in zip(ps_.args, e.args):
        v_ = eval_env2(repo, module, a_, env, cls)
        _kill(sub, pa_.arg); sub.exact[pa_.arg] = v_
      return eval_env2(repo, module, lam.body, sub, cls)
    raise _Unknown()
  if isinstance(fn, ast.Name) and not e.keywords:
    args = [eval_env2(repo, module, a, env, cls) for a in e.args]
    if fn.id == 'len' and len(args) == 1: return len(args[0])
    if fn.id in ('set', 'list', 'dict', 'tuple') and not args: return {'set': set, 'list': list, 'dict': dict, 'tuple': tuple}[fn.id]()
    if fn.id == 'type' and len(args) == 1: return type(args[0])
    if fn.id == 'isinstance' and len(args) == 2: return isinstance(args[0], args[1])
    if fn.id == 'bool' and len(args) == 1: return bool(args[0])
    if fn.id in ('list', 'tuple', 'set', 'sorted', 'str', 'int', 'hex', 'oct', 'bin', 'chr', 'ord', 'bytes', 'abs', 'min', 'max', 'sum', 'reversed') and len(args) == 1:
      if any(a is OPAQUE for a in args): raise _Unknown()
      try:
        r_ = {'list': list, 'tuple': tuple, 'set': set, 'sorted': sorted, 'str': str, 'int': int, 'hex': hex, 'oct': oct, 'bin': bin, 'chr': chr, 'ord': ord, 'bytes': bytes, 'abs': abs, 'min': min, 'max': max, 'sum': sum, 'reversed': lambda x: list(reversed(x))}[fn.id](args[0])
        return r_
      except Exception as ex_: _note_raise(e, args, ex_); raise _Unknown()
    if fn.id in ('range', 'min', 'max', 'zip', 'enumerate', 'divmod', 'pow') and 1 <= len(args) <= 3 and not (fn.id in ('min', 'max') and len(args) == 1):
      if any(a is OPAQUE for a in args): raise _Unknown()
      try:
        r_ = {'range': range, 'min': min, 'max': max, 'zip': zip, 'enumerate': enumerate, 'divmod': divmod, 'pow': pow}[fn.id](*args)
        if fn.id in ('range', 'zip', 'enumerate'):
          r_ = list(r_)
          if len(r_) > 4096: raise _Unknown()
        return r_
      except _Unknown: raise
      except Exception as ex_: _note_raise(e, args, ex_); raise _Unknown()
    if fn.id == 'int' and len(args) == 2:
      if any(a is OPAQUE for a in args): raise _Unknown()
      try: return int(args[0], args[1])
      except Exception as ex_: _note_raise(e, args, ex_); raise _Unknown()
    if fn.id in ('all', 'any') and len(args) == 1:
      try: vals = list(args[0])
      except Exception: raise _Unknown()
      if any(v is OPAQUE for v in vals):
        # decided anyway when a known element settles it
        known = [v for v in vals if v is not OPAQUE]
        if fn.id == 'all' and any(not v for v in known): return False
        if fn.id == 'any' and any(v for v in known): return True
        raise _Unknown()
      return all(vals) if fn.id == 'all' else any(vals)
    if fn.id in ('getattr', 'hasattr') and len(args) in (2, 3) and isinstance(args[0], Rec) and isinstance(args[1], str):
      # attribute of a sample record by computed name
      if fn.id == 'hasattr': return args[1] in args[0]
      if args[1] in args[0]: return args[0][args[1]]
      if len(args) == 3: return args[2]
      raise _Unknown()
    if fn.id == 'next' and len(args) == 2:
      try:
        vals = list(args[0])
        return vals[0] if vals else args[1]
      except Exception: raise _Unknown()
  if isinstance(fn, ast.Attribute) and isinstance(fn.value, ast.Name) and fn.value.id == 'socket' and fn.attr in ('htonl', 'ntohl', 'htons', 'ntohs') and len(e.args) == 1 and not e.keywords \
     and 'socket' not in env.exact:
    # byte-order conversion of the standard library (host order of the machine the analysis runs on, like native struct codes)
    import socket as _socket
    a_ = eval_env2(repo, module, e.args[0], env, cls)
    if a_ is OPAQUE: raise _Unknown()
    try: return getattr(_socket, fn.attr)(a_)
    except Exception as ex_: _note_raise(e, [a_], ex_); raise _Unknown()
  if isinstance(fn, ast.Attribute) and isinstance(fn.value, ast.Name) and fn.value.id == 'struct' and fn.attr in ('pack', 'unpack', 'unpack_from', 'calcsize') and not e.keywords \
     and 'struct' not in env.exact:
    import struct as _struct
    args = [eval_env2(repo, module, a, env, cls) for a in e.args]
    if any(a is OPAQUE for a in args): raise _Unknown()
    try: return getattr(_struct, fn.attr)(*args)
    except Exception as ex_: _note_raise(e, args, ex_); raise _Unknown()
  if isinstance(fn, ast.Attribute) and fn.attr in _PURE_METHODS and not e.keywords:
    base = eval_env2(repo, module, fn.value, env, cls)
    if type(base) in (str, bytes, list, tuple, dict, set, frozenset):
      args = [eval_env2(repo, module, a, env, cls) for a in e.args]
      try: return getattr(base, fn.attr)(*args)
      except Exception as ex_: _note_raise(e, [base] + args, ex_); raise _Unknown()
    if isinstance(base, int) and not isinstance(base, bool) and fn.attr in ('to_bytes', 'bit_length'):
      args = [eval_env2(repo, module, a, env, cls) for a in e.args]
      if any(a is OPAQUE for a in args): raise _Unknown()
      try: return getattr(base, fn.attr)(*args)
      except Exception as ex_: _note_raise(e, [base] + args, ex_); raise _Unknown()
    if isinstance(base, bytes) and fn.attr == 'hex':
      args = [eval_env2(repo, module, a, env, cls) for a in e.args]
      try: return base.hex(*args)
      except Exception as ex_: _note_raise(e, [base] + args, ex_); raise _Unknown()
  raise _Unknown()

_PURE_METHODS = ('split', 'rsplit', 'join', 'partition', 'rpartition', 'count', 'startswith', 'endswith',
                 'lower', 'upper', 'strip', 'lstrip', 'rstrip', 'replace', 'find', 'index', 'get', 'isdigit',
                 'keys', 'values', 'items', 'encode', 'decode', 'ljust', 'rjust', 'zfill', 'format', 'to_bytes', 'bit_length', 'hex')

class Rec(dict):
  """a sample object for evaluation: attribute access reads the dict"""
  def __hash__ (self): return id(self)

class _Opaque(object):
  """placeholder for an element whose value is not known (inside an otherwise known container)"""
  def __repr__ (self): return '<?>'
OPAQUE = _Opaque()

def _partial (repo, module, e, env, cls):
  try:
    v = eval_env2(repo, module, e, env, cls)
    return v
  except _Unknown: return OPAQUE
  except Exception: return OPAQUE

def eval_env2 (repo, module, e, env, cls=None):
  """eval_env plus len/type/isinstance on known values, constant subscripts
  and builtin type names"""
  hit, v = env.lookup(e)
  if hit: return v
  if isinstance(e, ast.Name):
    # module-level literal containers, evaluated element-wise (unknown elements become OPAQUE)
    r = module.lookup(e.id) if module is not None else None
    if isinstance(r, tuple) and r[0] == 'const' and isinstance(r[2], (ast.Dict, ast.Tuple, ast.List)) and e.id not in _BUILTIN_VALUES:
      return eval_env2(repo, r[1], r[2], Env(), None)
  if isinstance(e, ast.Dict):
    return dict((eval_env2(repo, module, k, env, cls), _partial(repo, module, v, env, cls)) for k, v in zip(e.keys, e.values))
  if isinstance(e, (ast.Tuple, ast.List)) and any(not isinstance(x, ast.Constant) for x in e.elts):
    vals = [_partial(repo, module, x, env, cls) for x in e.elts]
    return tuple(vals) if isinstance(e, ast.Tuple) else vals
  if isinstance(e, ast.Name) and e.id in _BUILTIN_VALUES: return _BUILTIN_VALUES[e.id]
  if isinstance(e, ast.IfExp):
    t = eval_env2(repo, module, e.test, env, cls)
    if t is OPAQUE: raise _Unknown()
    return eval_env2(repo, module, e.body if t else e.orelse, env, cls)
  if isinstance(e, (ast.ListComp, ast.GeneratorExp, ast.SetComp)) and len(e.generators) <= 3:
    out = []
    def gen (i, cur_env):
      if i == len(e.generators):
        out.append(eval_env2(repo, module, e.elt, cur_env, cls)); return
      c0 = e.generators[i]
      seq = eval_env2(repo, module, c0.iter, cur_env, cls)
      if seq is OPAQUE: raise _Unknown()
      try: items = list(seq)
      except Exception: raise _Unknown()
      if len(items) > 64: raise _Unknown()
      for it in items:
        ne = _bind_target(c0.target, it, cur_env)
        keep = True
        for cond in c0.ifs:
          v = eval_env2(repo, module, cond, ne, cls)
          if v is OPAQUE: raise _Unknown()
          if not v: keep = False; break
        if keep: gen(i + 1, ne)
    gen(0, env)
    return set(out) if isinstance(e, ast.SetComp) else out
  if isinstance(e, ast.Call): return _eval_call(repo, module, e, env, cls)
  if isinstance(e, ast.Lambda): return LambdaVal(e)
  if isinstance(e, ast.Attribute):
    hit, v = env.lookup(e)
    if not hit:
      try: base = eval_env2(repo, module, e.value, env, cls)
      except _Unknown: base = None
      if isinstance(base, Rec):
        if e.attr in base: return base[e.attr]
        raise _Unknown()
  if isinstance(e, ast.Subscript):
    base = eval_env2(repo, module, e.value, env, cls)
    if isinstance(e.slice, ast.Slice):
      ev = lambda x: None if x is None else eval_env2(repo, module, x, env, cls)
      try: return base[ev(e.slice.lower):ev(e.slice.upper):ev(e.slice.step)]
      except _Unknown: raise
      except Exception: raise _Unknown()
    idx = eval_env2(repo, module, e.slice, env, cls)
    try: return base[idx]
    except Exception: raise _Unknown()
  if isinstance(e, (ast.UnaryOp, ast.BoolOp, ast.BinOp, ast.Compare, ast.Tuple, ast.List, ast.Set)):
    # re-use eval_env's structure but recurse through eval_env2
    return _eval_struct(repo, module, e, env, cls)
  return eval_env(repo, module, e, env, cls)

def _eval_struct (repo, module, e, env, cls):
  class _E(Env):
    pass
  # wrap: evaluate children with eval_env2 by pre-computing them into a derived env
  sub = Env(dict(env.exact), list(env.matchers), getattr(env, 'call_hook', None))
  for ch in ast.iter_child_nodes(e):
    if isinstance(ch, ast.expr):
      try: sub.exact[norm(ch)] = eval_env2(repo, module, ch, env, cls)
      except _Unknown: pass
  return eval_env(repo, module, e, sub, cls)

from .cfg import _RAISY as _cfg_RAISY
def paths_under (repo, module, g, env, start, stops, cls=None, limit=200, track=True, on_node=None, track_start=False, exc=False):
  """enumerate paths start -> any node in `stops` following only branches
  consistent with env; simple local assignments update a per-path copy of the
  environment (constant propagation; unknown values drop the binding).
  Returns list of (nodes tuple, final Env)."""
  out = []
  stops = set(stops)
  stack = [(start, (start,), env, frozenset(), ())]
  steps = 0
  while stack and len(out) < limit:
    steps += 1
    if steps > 200000: break
    n, path, e, used, loops = stack.pop()
    if on_node is not None: on_node(n, e)
    if n in stops and len(path) > 1:
      out.append((path, e)); continue
    succ = n.succ
    if n.kind == 'for' and track:
      # bounded unrolling when the iterable is a known finite sequence
      cur = dict(loops)
      st_ = cur.get(n.id)
      if st_ is None:
        try:
          seq = eval_env2(repo, module, n.ast.iter, e, cls)
          seq = list(seq.items() if False else seq)
          st_ = (seq, 0) if len(seq) <= 64 else None
        except Exception: st_ = None
      else:
        st_ = (st_[0], st_[1] + 1)
      if st_ is not None:
        seq, idx = st_
        if idx < len(seq):
          cur[n.id] = st_
          ne = _bind_target(n.ast.target, seq[idx], e)
          for m, l in n.succ:
            if l is True: stack.append((m, path + (m,), ne, frozenset(), tuple(sorted(cur.items(), key=lambda kv: kv[0]))))
        else:
          cur.pop(n.id, None)
          for m, l in n.succ:
            if l is False: stack.append((m, path + (m,), e, used, tuple(sorted(cur.items(), key=lambda kv: kv[0]))))
        continue
    if n.kind == 'cond':
      try: v = bool(eval_env2(repo, module, n.ast, e, cls))
      except _Unknown: v = None
      except Exception: v = None
      if v is not None: succ = [(m, l) for m, l in n.succ if l == v]
      # a loop test that evaluates to a definite True under the current values: the body may be walked again (concrete
      # iteration of `while i < n and ...` loops); bounded by the length of the path
      if v is True and isinstance(getattr(n, 'stmt', None), ast.While) and any(x is n.ast for x in ast.walk(n.stmt.test)):
        if len(path) > 900: continue
        used = frozenset()
    ne = e
    if track and n.kind == 'stmt' and isinstance(n.ast, (ast.Assign, ast.AugAssign)) and (n is not start or (track_start and len(path) == 1)):
      ne = _assign_env(repo, module, n.ast, e, cls)
    elif track and n.kind == 'stmt' and isinstance(n.ast, ast.Expr) and isinstance(n.ast.value, ast.Call) and isinstance(n.ast.value.func, ast.Attribute) \
         and n.ast.value.func.attr == 'insert' and len(n.ast.value.args) == 2 and isinstance(e.exact.get(norm(n.ast.value.func.value)), list):
      nm_ = norm(n.ast.value.func.value); cur_ = e.exact[nm_]
      ne = Env(dict(e.exact), list(e.matchers), getattr(e, 'call_hook', None))
      try:
        i_ = eval_env2(repo, module, n.ast.value.args[0], e, cls); v_ = eval_env2(repo, module, n.ast.value.args[1], e, cls)
        if i_ is OPAQUE or v_ is OPAQUE or not isinstance(i_, int): raise _Unknown()
        c2 = list(cur_); c2.insert(i_, v_); ne.exact[nm_] = c2
        for k2_, v2_ in list(ne.exact.items()):
          if k2_ != nm_ and v2_ is cur_: ne.exact[k2_] = c2
      except Exception:
        for k2_, v2_ in list(ne.exact.items()):
          if v2_ is cur_: ne.exact.pop(k2_, None)
    elif track and n.kind == 'stmt' and isinstance(n.ast, ast.Expr) and isinstance(n.ast.value, ast.Call) and isinstance(n.ast.value.func, ast.Attribute) \
         and n.ast.value.func.attr in ('append', 'extend') and isinstance(n.ast.value.func.value, ast.Subscript) and isinstance(n.ast.value.func.value.value, ast.Name) and len(n.ast.value.args) == 1 \
         and isinstance(e.exact.get(n.ast.value.func.value.value.id), dict):
      # growth of a list kept in a local dict of known value: D[k].append(x)
      dn_ = n.ast.value.func.value.value.id
      ne = Env(dict(e.exact), list(e.matchers), getattr(e, 'call_hook', None))
      try:
        k_ = eval_env2(repo, module, n.ast.value.func.value.slice, e, cls)
        v_ = eval_env2(repo, module, n.ast.value.args[0], e, cls)
        if k_ is OPAQUE or v_ is OPAQUE: raise _Unknown()
        d2 = dict(e.exact[dn_]); cur_ = d2[k_]
        if not isinstance(cur_, list): raise _Unknown()
        d2[k_] = cur_ + ([v_] if n.ast.value.func.attr == 'append' else list(v_))
        ne.exact[dn_] = d2
      except Exception:
        _kill(ne, dn_)
    elif track and n.kind == 'stmt' and isinstance(n.ast, ast.Expr) and isinstance(n.ast.value, ast.Call) and isinstance(n.ast.value.func, ast.Attribute) \
         and n.ast.value.func.attr in ('append', 'extend', 'update', 'difference_update', 'add', 'discard', 'remove') and len(n.ast.value.args) == 1 \
         and (isinstance(n.ast.value.func.value, ast.Name) or (isinstance(n.ast.value.func.value, ast.Attribute) and norm(n.ast.value.func.value) in e.exact)):
      # in-place change of a local (or an attribute the scenario gives a value to) list / set whose value is known
      nm_ = norm(n.ast.value.func.value); meth = n.ast.value.func.attr
      cur_ = e.exact.get(nm_)
      if isinstance(cur_, (list, set)):
        ne = Env(dict(e.exact), list(e.matchers), getattr(e, 'call_hook', None))
        try:
          v_ = eval_env2(repo, module, n.ast.value.args[0], e, cls)
          if v_ is OPAQUE: raise _Unknown()
          if isinstance(cur_, list):
            if meth == 'append': ne.exact[nm_] = cur_ + [v_]
            elif meth == 'extend': ne.exact[nm_] = cur_ + list(v_)
            elif meth == 'remove': c2 = list(cur_); c2.remove(v_); ne.exact[nm_] = c2
            else: raise _Unknown()
          else:
            c2 = set(cur_)
            if meth == 'update': c2.update(v_)
            elif meth == 'difference_update': c2.difference_update(v_)
            elif meth == 'add': c2.add(v_)
            elif meth in ('discard', 'remove'): c2.discard(v_)
            else: raise _Unknown()
            ne.exact[nm_] = c2
          # aliasing: every other binding that held the very same object sees the change too
          for k2_, v2_ in list(ne.exact.items()):
            if k2_ != nm_ and v2_ is cur_: ne.exact[k2_] = ne.exact[nm_]
        except Exception:
          for k2_, v2_ in list(ne.exact.items()):
            if k2_ != nm_ and v2_ is cur_: ne.exact.pop(k2_, None)
          if '.' in nm_: ne.exact.pop(nm_, None)
          else: _kill(ne, nm_)
    elif track and n.kind == 'stmt' and isinstance(n.ast, ast.Delete) and len(n.ast.targets) == 1 and isinstance(n.ast.targets[0], ast.Subscript) and isinstance(n.ast.targets[0].slice, ast.Slice) \
         and isinstance(e.exact.get(norm(n.ast.targets[0].value)), (list, bytearray)):
      # removal of a slice from a mutable sequence of known value: `del B[:n]`
      nm_ = norm(n.ast.targets[0].value); cur_ = e.exact[nm_]; sl_ = n.ast.targets[0].slice
      ne = Env(dict(e.exact), list(e.matchers), getattr(e, 'call_hook', None))
      try:
        lo_ = None if sl_.lower is None else eval_env2(repo, module, sl_.lower, e, cls)
        hi_ = None if sl_.upper is None else eval_env2(repo, module, sl_.upper, e, cls)
        if lo_ is OPAQUE or hi_ is OPAQUE or sl_.step is not None: raise _Unknown()
        c2 = type(cur_)(cur_); del c2[lo_:hi_]; ne.exact[nm_] = c2
      except Exception:
        ne.exact.pop(nm_, None)
    elif track and n.kind == 'stmt' and ((isinstance(n.ast, ast.Delete) and len(n.ast.targets) == 1 and isinstance(n.ast.targets[0], ast.Subscript) and not isinstance(n.ast.targets[0].slice, ast.Slice)
                                          and isinstance(e.exact.get(norm(n.ast.targets[0].value)), (dict, list)))
                                         or (isinstance(n.ast, ast.Expr) and isinstance(n.ast.value, ast.Call) and isinstance(n.ast.value.func, ast.Attribute) and n.ast.value.func.attr == 'pop'
                                             and 1 <= len(n.ast.value.args) <= 2 and isinstance(e.exact.get(norm(n.ast.value.func.value)), dict))):
      # removal of one element from a container of known value: `del D[k]`, `D.pop(k)`, `D.pop(k, default)`
      isdel = isinstance(n.ast, ast.Delete)
      bexp = n.ast.targets[0].value if isdel else n.ast.value.func.value
      kexp = n.ast.targets[0].slice if isdel else n.ast.value.args[0]
      nm_ = norm(bexp); cur_ = e.exact[nm_]
      ne = Env(dict(e.exact), list(e.matchers), getattr(e, 'call_hook', None))
      try:
        k_ = eval_env2(repo, module, kexp, e, cls)
        if k_ is OPAQUE: raise _Unknown()
        c2 = dict(cur_) if isinstance(cur_, dict) else list(cur_)
        if isdel or len(n.ast.value.args) == 1: del c2[k_]
        else: c2.pop(k_, None)
        ne.exact[nm_] = c2
        for k2_, v2_ in list(ne.exact.items()):
          if k2_ != nm_ and v2_ is cur_: ne.exact[k2_] = c2
      except Exception:
        for k2_, v2_ in list(ne.exact.items()):
          if v2_ is cur_: ne.exact.pop(k2_, None)
    if track and ne is e and n.kind == 'stmt' and isinstance(n.ast, ast.Expr) and isinstance(n.ast.value, ast.Call) and getattr(e, 'call_hook', None) is not None \
       and getattr(e.call_hook, 'wants_env', False) and getattr(e.call_hook, 'effects', False):
      # a call statement: a hook that models effects (declared with .effects = True) gets to apply them to this path's environment
      ne = Env(dict(e.exact), list(e.matchers), e.call_hook)
      try: e.call_hook(n.ast.value, ne)
      except Exception: pass
    fan = sum(1 for m, l in succ if l != 'exc')
    for m, l in succ:
      if l == 'exc':
        # the statement raised: control goes to the handler with the state *before* the statement (only on request, and only
        # into handlers of this function - an exception that leaves the function ends the path)
        if not exc or m.kind != 'handler': continue
        # the CFG also hangs an 'exc' edge on the predecessors of a raising statement ("raised before any effect"); for a walk that carries
        # values that edge is the raising statement's own edge taken with its pre-state - following it from a statement that cannot raise
        # would enter the handler with the state before *that* statement
        if n.ast is not None and not isinstance(n.ast, (ast.For, ast.With)) and not any(isinstance(x_, _cfg_RAISY) for x_ in ast.walk(n.ast)): continue
        # ... nor from a statement that is not inside the try this handler belongs to (the predecessor of the try's first statement)
        if not any(any(hh_ is m.ast for hh_ in t_.handlers) for t_ in g.try_of.get(n, ())) and isinstance(m.ast, ast.ExceptHandler): continue
        # ... nor from one whose value the walk has just computed completely from known values (`_ = seq[0]` with seq = ['a'])
        if track and n.kind == 'stmt' and isinstance(n.ast, ast.Assign) and (isinstance(n.ast.value, (ast.Subscript, ast.Name, ast.Constant, ast.Compare, ast.BinOp)) or
                                                                              (isinstance(n.ast.value, ast.Call) and isinstance(n.ast.value.func, ast.Name) and n.ast.value.func.id in ('list', 'tuple', 'set', 'len', 'sorted', 'dict') and not n.ast.value.keywords)):
          try:
            v_ = eval_env2(repo, module, n.ast.value, e, cls)
            if v_ is not OPAQUE and not isinstance(v_, Rec): continue
          except Exception: pass
        key = (n.id, m.id)
        if key in used: continue
        stack.append((m, path + (m,), e, used | {key}, loops))
        continue
      key = (n.id, m.id)
      if key in used: continue
      # an on_node callback may keep per-path records in the environment: the branches of a fork get environments of their own
      ne_m = Env(dict(ne.exact), list(ne.matchers), getattr(ne, 'call_hook', None)) if (on_node is not None and fan > 1) else ne
      stack.append((m, path + (m,), ne_m, used | {key}, loops))
  return out

def _bind_target (tgt, val, env):
  ne = Env(dict(env.exact), list(env.matchers), getattr(env, 'call_hook', None))
  def bind (t, v):
    if isinstance(t, ast.Name):
      _kill(ne, t.id)
      if v is not OPAQUE: ne.exact[t.id] = v
    elif isinstance(t, (ast.Tuple, ast.List)):
      try: vs = list(v)
      except Exception: vs = None
      if vs is not None and len(vs) == len(t.elts):
        for a, b in zip(t.elts, vs): bind(a, b)
      else:
        for a in t.elts: bind(a, OPAQUE)
  bind(tgt, val)
  return ne

def _assign_env (repo, module, st, env, cls):
  ne = Env(dict(env.exact), list(env.matchers), getattr(env, 'call_hook', None))
  if isinstance(st, ast.Assign) and len(st.targets) > 1 and all(isinstance(t, ast.Name) or (isinstance(t, ast.Attribute) and isinstance(t.value, ast.Name)) for t in st.targets):
    # a = b.c = value : one evaluation, every target bound to the same object
    try: val = eval_env2(repo, module, st.value, env, cls); known = val is not OPAQUE
    except Exception: known = False
    for t in st.targets:
      if isinstance(t, ast.Name): _kill(ne, t.id)
      else:
        key = norm(t)
        for k in list(ne.exact):
          if key in k: del ne.exact[k]
    if known:
      for t in st.targets: ne.exact[t.id if isinstance(t, ast.Name) else norm(t)] = val
    return ne
  if isinstance(st, ast.Assign) and len(st.targets) == 1 and isinstance(st.targets[0], ast.Name):
    nm = st.targets[0].id
    try: val = eval_env2(repo, module, st.value, env, cls); known = True
    except _Unknown: known = False
    except Exception: known = False
    _kill(ne, nm)
    if known: ne.exact[nm] = val
    elif isinstance(st.value, ast.Call) and st.value.keywords:
      # x = Cls(a=v, ...) where Cls.__init__ copies its keyword arguments to attributes of the same name (initHelper): x.a is v
      fields = kw_ctor_fields(repo, module, st.value)
      for k_ in st.value.keywords:
        if k_.arg is None or k_.arg not in fields: continue
        try:
          v_ = eval_env2(repo, module, k_.value, env, cls)
          if v_ is not OPAQUE: ne.exact['%s.%s' % (nm, k_.arg)] = v_
        except Exception: pass
    return ne
  if isinstance(st, ast.Assign) and len(st.targets) == 1 and isinstance(st.targets[0], (ast.Tuple, ast.List)) and \
     all(isinstance(x, ast.Name) or (isinstance(x, ast.Attribute) and isinstance(x.value, ast.Name)) for x in st.targets[0].elts):
    try:
      val = eval_env2(repo, module, st.value, env, cls)
      val = list(val)
      if len(val) == len(st.targets[0].elts):
        for x, v in zip(st.targets[0].elts, val):
          if isinstance(x, ast.Name):
            _kill(ne, x.id)
            if v is not OPAQUE: ne.exact[x.id] = v
          else:
            key = norm(x)
            for k in list(ne.exact):
              if key in k: del ne.exact[k]
            if v is not OPAQUE: ne.exact[key] = v
        return ne
    except Exception: pass
  if isinstance(st, ast.Assign) and len(st.targets) == 1 and isinstance(st.targets[0], ast.Attribute) and isinstance(st.targets[0].value, ast.Name):
    key = norm(st.targets[0])
    try: val = eval_env2(repo, module, st.value, env, cls); known = True
    except Exception: known = False
    for k in list(ne.exact):
      if key in k: del ne.exact[k]
    if known and val is not OPAQUE: ne.exact[key] = val
    return ne
  if isinstance(st, ast.AugAssign) and isinstance(st.target, ast.Attribute) and isinstance(st.target.value, ast.Name):
    key = norm(st.target)
    try:
      val = eval_env2(repo, module, ast.BinOp(left=st.target, op=st.op, right=st.value), env, cls)
      for k in list(ne.exact):
        if key in k: del ne.exact[k]
      ne.exact[key] = val
      return ne
    except Exception:
      for k in list(ne.exact):
        if key in k: del ne.exact[k]
      return ne
  if isinstance(st, ast.AugAssign) and isinstance(st.target, ast.Name):
    nm = st.target.id
    try:
      val = eval_env2(repo, module, ast.BinOp(left=ast.Name(id=nm, ctx=ast.Load()), op=st.op, right=st.value), env, cls)
      _kill(ne, nm); ne.exact[nm] = val
      return ne
    except Exception: pass
  if isinstance(st, ast.Assign) and len(st.targets) == 1 and isinstance(st.targets[0], ast.Subscript) and not isinstance(st.targets[0].slice, ast.Slice):
    # element store into a container whose value is known: update a copy, or forget the container
    base = norm(st.targets[0].value)
    cur = ne.exact.get(base)
    if isinstance(cur, (list, dict)):
      try:
        k_ = eval_env2(repo, module, st.targets[0].slice, env, cls)
        v_ = eval_env2(repo, module, st.value, env, cls)
        if k_ is OPAQUE: raise _Unknown()
        c2 = list(cur) if isinstance(cur, list) else dict(cur)
        c2[k_] = v_
        ne.exact[base] = c2
        for k2_, v2_ in list(ne.exact.items()):
          if k2_ != base and v2_ is cur: ne.exact[k2_] = c2
      except Exception:
        ne.exact.pop(base, None)
        for k2_, v2_ in list(ne.exact.items()):
          if v2_ is cur: ne.exact.pop(k2_, None)
    return ne
  if isinstance(st, ast.AugAssign) and isinstance(st.target, ast.Subscript) and not isinstance(st.target.slice, ast.Slice):
    base = norm(st.target.value)
    cur = ne.exact.get(base)
    if isinstance(cur, (list, dict)):
      try:
        k_ = eval_env2(repo, module, st.target.slice, env, cls)
        v_ = eval_env2(repo, module, ast.BinOp(left=ast.Subscript(value=st.target.value, slice=st.target.slice, ctx=ast.Load()), op=st.op, right=st.value), env, cls)
        if k_ is OPAQUE or v_ is OPAQUE: raise _Unknown()
        c2 = list(cur) if isinstance(cur, list) else dict(cur)
        c2[k_] = v_
        ne.exact[base] = c2
        for k2_, v2_ in list(ne.exact.items()):
          if k2_ != base and v2_ is cur: ne.exact[k2_] = c2
      except Exception:
        ne.exact.pop(base, None)
        for k2_, v2_ in list(ne.exact.items()):
          if v2_ is cur: ne.exact.pop(k2_, None)
    return ne
  # anything else: kill every name stored
  for t in (st.targets if isinstance(st, ast.Assign) else [st.target]):
    for tt in _flatten(t):
      if isinstance(tt, ast.Name): _kill(ne, tt.id)
      elif isinstance(tt, ast.Attribute): ne.exact.pop(norm(tt), None)
      elif isinstance(tt, ast.Subscript): ne.exact.pop(norm(tt.value), None)
  return ne

def kw_ctor_fields (repo, module, call):
  """keyword names of `call` that end up as plain attributes of the constructed object: the callee is a repo class whose
  __init__ takes **kw and hands it to initHelper / init_helper, and the class has no property / method of that name"""
  try: c = module.resolve_expr(call.func)
  except Exception: return set()
  from .model import Cls
  if not isinstance(c, Cls): return set()
  init = c.find_method('__init__')
  if init is None or init.node.args.kwarg is None: return set()
  kwn = init.node.args.kwarg.arg
  def copies (fn, kname, depth=0):
    for x in calls_in(fn):
      if call_name(x) in ('initHelper', 'init_helper') and len(x.args) == 2 and norm(x.args[1]) == kname: return True
      # handed on to a method of the object that does it: self._init_helper(kw)
      if depth < 2 and isinstance(x.func, ast.Attribute) and isinstance(x.func.value, ast.Name) and x.func.value.id == 'self' and any(norm(a) == kname for a in x.args):
        m = c.find_method(x.func.attr)
        if m is not None:
          i_ = [norm(a) for a in x.args].index(kname)
          ps = [a.arg for a in m.node.args.args][1:]
          if i_ < len(ps) and copies(m.node, ps[i_], depth + 1): return True
    return False
  if not copies(init.node, kwn): return set()
  out = set()
  for k_ in call.keywords:
    if k_.arg is None: continue
    if any(k_.arg in k.methods or any(isinstance(b_, (ast.FunctionDef, ast.AsyncFunctionDef)) and b_.name == k_.arg for b_ in k.node.body) for k in c.mro()): continue
    out.add(k_.arg)
  return out

def _kill (env, nm):
  """drop bindings whose expression reads the *variable* nm (not an attribute
  that merely has the same name)"""
  for k in list(env.exact):
    try:
      t = ast.parse(k, mode='eval')
      hit = any(isinstance(x, ast.Name) and x.id == nm for x in ast.walk(t))
    except SyntaxError:
      hit = nm in k
    if hit: del env.exact[k]

def reach_under_cp (repo, module, g, env, cls=None, start=None, limit=400):
  """like reach_under but with constant propagation of simple local
  assignments along enumerated paths (each CFG edge at most once per path).
  Paths stop at exit, at raise statements and at returns."""
  start = start or g.entry
  stops = [g.exit, g.raise_exit] + [n for n in g.nodes if n.kind in ('raise_stmt',)]
  seen = set()
  for path, fe in paths_under(repo, module, g, env, start, stops, cls, limit=limit):
    seen.update(path)
  return seen

def try_int (e):
  """integer value of a literal expression (incl. unary minus), else None"""
  b, k = linear(e, None)
  if b is None: return k
  return None

def must_pass_under (repo, module, g, env, targets, cls=None, start=None, stops=None, cp=False):
  """Within the part of the CFG that is reachable under env: does every path
  from start to a stop (default: normal exit) pass through one of `targets`?
  Returns (holds, reachable_set)."""
  start = start or g.entry
  stops = stops or [g.exit]
  r = reach_under_cp(repo, module, g, env, cls, start=start) if cp else reach_under(repo, module, g, env, cls, start=start)
  tg = set(targets)
  seen = set([start]); st = [start]
  if start in tg: return True, r
  while st:
    n = st.pop()
    for m, l in n.succ:
      if l == 'exc' or m in seen or m not in r or m in tg: continue
      seen.add(m); st.append(m)
  return not any(s in seen for s in stops), r


class PureCallHook(object):
  """Call hook that evaluates calls to small pure module-level helper
  functions of `module` on constant arguments (constant propagation through
  the helper's CFG; exactly one return value must result)."""
  wants_env = True
  def __init__ (self, repo, module, cls=None):
    self.repo = repo; self.module = module; self.cls = cls; self.depth = 0
  def __call__ (self, call, env):
    fn = call.func
    f = None
    if isinstance(fn, ast.Name): f = self.module.funcs.get(fn.id)
    elif isinstance(fn, ast.Attribute) and norm(fn.value) == 'self' and self.cls is not None:
      f = self.cls.find_method(fn.attr)
    if f is None or call.keywords or self.depth > 3: return (False, None)
    try: args = [eval_env2(self.repo, self.module, a, env, self.cls) for a in call.args]
    except Exception: return (False, None)
    ps = f.params
    if f.cls is not None and not f.is_static: ps = ps[1:]
    if len(ps) != len(args): return (False, None)
    g = cfg_of(f)
    inner = Env(dict(zip(ps, args)), call_hook=self)
    res = []
    def on_node (n, e):
      if n.kind == 'return' and n.ast.value is not None:
        try: res.append(eval_env2(self.repo, self.module, n.ast.value, e, self.cls))
        except Exception: res.append(_Unknown)
    self.depth += 1
    try: paths_under(self.repo, self.module, g, inner, g.entry, [g.exit], self.cls, limit=20, on_node=on_node)
    finally: self.depth -= 1
    vals = [r for r in res if r is not _Unknown]
    if res and len(vals) == len(res) and all(v == vals[0] for v in vals): return (True, vals[0])
    return (False, None)


def replay (repo, module, path, env0, cls=None):
  """walk an explicit node path applying constant propagation; yields (node, env_before_node)"""
  env = env0
  for i, n in enumerate(path):
    yield n, env
    if n.kind == 'stmt' and isinstance(n.ast, (ast.Assign, ast.AugAssign)):
      env = _assign_env(repo, module, n.ast, env, cls)
    elif n.kind == 'for':
      for t in _flatten(n.ast.target):
        if isinstance(t, ast.Name): env = _bind_target(t, OPAQUE, env)

# ---------------------------------------------------------------------------
# reaching definitions of a local name over the CFG, and value provenance

def _defs_of_node (n, name):
  """does CFG node n (re)define local `name`?  returns the defining (target, value, kind) or None"""
  a = n.ast
  if a is None: return None
  if n.kind == 'for':
    for tt in _flatten(a.target):
      if isinstance(tt, ast.Name) and tt.id == name: return (tt, a, 'for')
    return None
  if n.kind == 'handler':
    if getattr(a, 'name', None) == name: return (None, None, 'except')
    return None
  if n.kind in ('cond', 'branch', 'def'): return None
  if isinstance(a, ast.Assign):
    for t in a.targets:
      for tt in _flatten(t):
        if isinstance(tt, ast.Name) and tt.id == name:
          return (tt, a.value if tt is t else ('elt', a, t, tt), 'assign')
  elif isinstance(a, ast.AugAssign):
    if isinstance(a.target, ast.Name) and a.target.id == name: return (a.target, a, 'augassign')
  elif isinstance(a, ast.AnnAssign) and a.value is not None:
    if isinstance(a.target, ast.Name) and a.target.id == name: return (a.target, a.value, 'assign')
  elif isinstance(a, ast.With):
    for i in a.items:
      if i.optional_vars is not None:
        for tt in _flatten(i.optional_vars):
          if isinstance(tt, ast.Name) and tt.id == name: return (tt, i.context_expr, 'with')
  elif isinstance(a, (ast.Import, ast.ImportFrom)):
    for al in a.names:
      if (al.asname or al.name).split('.')[0] == name: return (None, None, 'import')
  return None

def reaching_defs (g, name):
  """{node: set of definition nodes of `name` reaching the node's entry}; the pseudo definition
  g.entry stands for 'parameter / not assigned yet'"""
  defn = dict((n, _defs_of_node(n, name)) for n in g.nodes)
  IN = dict((n, set()) for n in g.nodes); OUT = dict((n, set()) for n in g.nodes)
  OUT[g.entry] = {g.entry}
  work = list(g.nodes)
  while work:
    n = work.pop()
    i = set()
    for p, lab in n.pred: i |= OUT[p]
    if n is g.entry: i = set()
    IN[n] = i
    o = {n} if defn[n] is not None else (set(i) if n is not g.entry else {g.entry})
    if o != OUT[n]:
      OUT[n] = o
      for s, lab in n.succ: work.append(s)
  return IN, defn

def provenance (g, node, name, _depth=0, _seen=None):
  """where can the value of local `name` at CFG node `node` come from?  list of
  (def_node, kind, value) following copies through other locals; kind in
  'param' (def_node is g.entry) / 'assign' / 'for' / 'augassign' / 'with' / 'except' / 'elt'"""
  if _seen is None: _seen = set()
  IN, defn = reaching_defs(g, name)
  out = []
  for d in IN[node]:
    if (d, name) in _seen: continue
    _seen.add((d, name))
    if d is g.entry: out.append((d, 'param', None)); continue
    tt, v, kind = defn[d]
    if kind == 'assign' and isinstance(v, ast.Name) and _depth < 6:
      sub = provenance(g, d, v.id, _depth + 1, _seen)
      if sub: out += sub; continue
    if kind == 'assign' and isinstance(v, tuple): kind = 'elt'
    out.append((d, kind, v))
  return out

# ---------------------------------------------------------------------------
# lists collected from a scan: append-in-loop and comprehension forms alike

class Collected(object):
  """a local list filled from one scan: name, element expr, iterable expr, loop variable,
  facts [(text of atomic test, polarity)] under which an element is taken, site (ast), form"""
  def __init__ (self, name, elt, it, var, conds, site, form, node=None):
    self.name = name; self.elt = elt; self.it = it; self.var = var; self.conds = conds; self.site = site; self.form = form; self.node = node
  def cond_strs (self):
    return ["%s:%s" % (norm(t), 'truthy' if p else 'falsy') for t, p in self.conds]

def _split_test (t, pol=True):
  """atomic tests of a condition that all hold when the condition has polarity pol (conjunctive part only)"""
  if isinstance(t, ast.UnaryOp) and isinstance(t.op, ast.Not): return _split_test(t.operand, not pol)
  if isinstance(t, ast.BoolOp):
    if (isinstance(t.op, ast.And) and pol) or (isinstance(t.op, ast.Or) and not pol):
      out = []
      for v in t.values: out += _split_test(v, pol)
      return out
    return []          # a disjunction gives no atomic fact
  return [(t, pol)]

def collected_lists (func):
  g = cfg_of(func); out = []
  fn = func.node
  for st in walk_no_nested(fn):
    if isinstance(st, ast.Assign) and len(st.targets) == 1 and isinstance(st.targets[0], ast.Name) and isinstance(st.value, ast.ListComp) and len(st.value.generators) == 1:
      c0 = st.value.generators[0]
      conds = []
      for i in c0.ifs: conds += _split_test(i, True)
      out.append(Collected(st.targets[0].id, st.value.elt, c0.iter, c0.target, conds, st, 'comprehension', enclosing_stmt_node(g, st)))
  for c in calls_in(fn):
    if call_name(c) == 'append' and isinstance(c.func.value, ast.Name) and len(c.args) == 1:
      n = enclosing_stmt_node(g, c)
      if n is None: continue
      loop = None
      for (ls, h, a) in g.loop_nodes:
        if isinstance(ls, ast.For) and n in g.loop_body_nodes(h): loop = (ls, h)
      if loop is None: continue
      conds = []
      for test, pol, b in g.guards(n):
        if isinstance(test, (ast.For, ast.AsyncFor)): continue
        if b in g.loop_body_nodes(loop[1]) or True:
          # only guards inside the loop select elements
          if g.dominates(loop[1], b): conds.append((test, pol))
      out.append(Collected(c.func.value.id, c.args[0], loop[0].iter, loop[0].target, conds, c, 'loop', n))
  return out

# ---------------------------------------------------------------------------
# argument values at a call site, decided by constant propagation along the paths that reach it

def effective_arg (call, callee, name, pos=None):
  """AST of the argument bound to parameter `name` of `callee` (Func) at `call`: explicit keyword / positional,
  else the callee's default expression, else None"""
  v = kwarg(call, name, pos)
  if v is not None or callee is None: return v
  a = callee.node.args
  ps = a.posonlyargs + a.args
  d = dict(zip([x.arg for x in reversed(ps)], reversed(a.defaults)))
  for x, dv in zip(a.kwonlyargs, a.kw_defaults):
    if dv is not None: d[x.arg] = dv
  return d.get(name)

def values_at (repo, module, g, env, node, expr, cls=None, limit=60):
  """set of values `expr` can take when control reaches CFG `node` under `env` (constant propagation along every
  feasible path from the entry); an unknown value is reported as the string '?'"""
  out = set()
  if node is g.entry: paths = [((g.entry,), env)]
  else: paths = paths_under(repo, module, g, env, g.entry, [node], cls, limit=limit)
  for p, e in paths:
    try: v = eval_env2(repo, module, expr, e, cls)
    except Exception: v = '?'
    if v is OPAQUE: v = '?'
    try: hash(v)
    except TypeError: v = repr(v)
    out.add(v)
  return out

def origins_satisfy (g, node, name, ok_at, _depth=0, _none_excluded=None):
  """does every value local `name` can hold at CFG `node` come from a point where ok_at(g, n, local_name) held?
  Copies through other locals are followed; origins that are the constant None are ignored when the use itself is
  guarded by `name is not None` / truthiness (they cannot reach it)."""
  if ok_at(g, node, name): return True
  if _depth > 6: return False
  if _none_excluded is None:
    fs = fact_strs(g, node)
    _none_excluded = ('%s is not None' % name) in fs or ('%s:truthy' % name) in fs
  IN, defn = reaching_defs(g, name)
  if not IN[node]: return False
  for d in IN[node]:
    if d is g.entry: return False
    tt, v, kind = defn[d]
    if kind == 'assign' and isinstance(v, ast.Constant) and v.value is None:
      if _none_excluded: continue
      return False
    if kind == 'assign' and isinstance(v, ast.Name):
      if not origins_satisfy(g, d, v.id, ok_at, _depth + 1, _none_excluded): return False
      continue
    return False
  return True

# ---------------------------------------------------------------------------
# linear inequalities over program expressions (for "available >= needed" style facts)

def lin_terms (e, alias=None):
  """e as ({symbol text: coefficient}, constant) over + and - of names / attributes / len() calls and int literals;
  None when e is not linear.  alias: {text: text} canonicalises symbols (e.g. 'buf_len' -> 'len(self.buf)')."""
  alias = alias or {}
  if isinstance(e, ast.Constant) and isinstance(e.value, int) and not isinstance(e.value, bool): return ({}, e.value)
  if isinstance(e, ast.UnaryOp) and isinstance(e.op, ast.USub):
    t = lin_terms(e.operand, alias)
    if t is None: return None
    return (dict((k, -v) for k, v in t[0].items()), -t[1])
  if isinstance(e, ast.BinOp) and isinstance(e.op, (ast.Add, ast.Sub)):
    a = lin_terms(e.left, alias); b = lin_terms(e.right, alias)
    if a is None or b is None: return None
    sgn = 1 if isinstance(e.op, ast.Add) else -1
    d = dict(a[0])
    for k, v in b[0].items():
      d[k] = d.get(k, 0) + sgn * v
      if d[k] == 0: del d[k]
    return (d, a[1] + sgn * b[1])
  if isinstance(e, (ast.Name, ast.Attribute, ast.Subscript)) or (isinstance(e, ast.Call) and call_name(e) == 'len' and len(e.args) == 1) or \
     (isinstance(e, ast.BinOp) and isinstance(e.op, (ast.BitOr, ast.LShift))):
    t = norm(e)
    return ({alias.get(t, t): 1}, 0)
  return None

def fact_as_ge0 (l, o, r, alias=None):
  """the comparison l o r over integers as `terms + const >= 0`; None if not linear / not an ordering"""
  a = lin_terms(l, alias); b = lin_terms(r, alias)
  if a is None or b is None or o not in ('<', '<=', '>', '>=', '=='): return None
  d = dict(a[0])
  for k, v in b[0].items():
    d[k] = d.get(k, 0) - v
    if d[k] == 0: del d[k]
  c = a[1] - b[1]                       # l - r  o  0
  if o == '>=' or o == '==': return (d, c)
  if o == '>': return (d, c - 1)
  neg = dict((k, -v) for k, v in d.items())
  if o == '<=': return (neg, -c)
  return (neg, -c - 1)                  # l < r  ->  r - l - 1 >= 0

def implies_ge0 (fact, target):
  """does `fact >= 0` imply `target >= 0`?  (same symbolic part, target constant not smaller)"""
  if fact is None or target is None: return False
  return fact[0] == target[0] and target[1] >= fact[1]


# ---------------------------------------------------------------------------
# derived state

def stale_derived_state (repo, cls, modules):
  """attributes of `cls` that are computed in __init__ from another constructor argument which is also kept as an
  attribute of its own (`self.P = P; self.X = f(P)`), where some function in `modules` later replaces `.P` on an object
  without setting `.X`: [(X, P, init_stmt, (module, func, store_stmt))].  The copy X goes stale at that store."""
  init = cls.methods.get('__init__')
  if init is None: return []
  params = set(init.params[1:])
  primary = {}; derived = []
  for t, v, st, k in stores_in(init.node, nested=False):
    if not (isinstance(t, ast.Attribute) and isinstance(t.value, ast.Name) and t.value.id == init.params[0]) or v is None or k != 'assign': continue
    if isinstance(v, ast.Name) and v.id in params: primary[v.id] = t.attr
  for t, v, st, k in stores_in(init.node, nested=False):
    if not (isinstance(t, ast.Attribute) and isinstance(t.value, ast.Name) and t.value.id == init.params[0]) or v is None or k != 'assign': continue
    if isinstance(v, ast.Name): continue
    for x in ast.walk(v):
      src = None
      if isinstance(x, ast.Name) and x.id in primary: src = primary[x.id]
      elif isinstance(x, ast.Attribute) and isinstance(x.value, ast.Name) and x.value.id == init.params[0] and x.attr in primary.values(): src = x.attr
      if src is not None and src != t.attr:
        derived.append((t.attr, src, st)); break
  out = []
  for X, P, ist in derived:
    for m in modules:
      fns = list(m.funcs.values()) + [f for c in m.classes.values() for f in c.methods.values()]
      for f in fns:
        if f is init: continue
        sts = [(t, st) for t, v, st, k in stores_in(f.node) if isinstance(t, ast.Attribute) and t.attr == P and k in ('assign', 'augassign')
               and (f.cls is cls or not (isinstance(t.value, ast.Name) and t.value.id == 'self'))]
        for t, st in sts:
          recv = norm(t.value)
          again = any(isinstance(t2, ast.Attribute) and t2.attr == X and norm(t2.value) == recv for t2, v2, st2, k2 in stores_in(f.node))
          if not again: out.append((X, P, ist, (m, f, st)))
  return out


_MUTATORS = ('add', 'append', 'extend', 'update', 'insert', 'pop', 'popitem', 'remove', 'discard', 'clear', 'setdefault', 'sort', 'reverse', 'difference_update', 'intersection_update', 'appendleft')
def mutated_defaults (repo, module, func, cls=None):
  """parameters of `func` whose default is a mutable object built once at definition time ([] / {} / set() / list() / dict())
  and which the function changes in place on a path that is feasible when the call leaves the parameter at its default (the
  path is walked with the parameter bound to the empty default value): [(parameter, CFG node of the mutation)].
  The object is shared by all calls, so what one call adds is still there for the next."""
  a = func.node.args
  names = [x.arg for x in a.args]; out = []
  defaults = dict(zip(names[len(names) - len(a.defaults):], a.defaults))
  for x, d in zip(a.kwonlyargs, a.kw_defaults):
    if d is not None: defaults[x.arg] = d
  cand = {}
  for nm, d in defaults.items():
    if isinstance(d, ast.List) and not d.elts: cand[nm] = []
    elif isinstance(d, ast.Dict) and not d.keys: cand[nm] = {}
    elif isinstance(d, ast.Call) and isinstance(d.func, ast.Name) and d.func.id in ('set', 'list', 'dict') and not d.args and not d.keywords: cand[nm] = {'set': set, 'list': list, 'dict': dict}[d.func.id]()
  if not cand: return out
  g = cfg_of(func)
  for nm, val in cand.items():
    muts = []
    for n in g.nodes:
      if n.ast is None or n.kind in ('def', 'branch', 'join', 'handler'): continue
      hit = any(isinstance(c.func, ast.Attribute) and c.func.attr in _MUTATORS and isinstance(c.func.value, ast.Name) and c.func.value.id == nm for c in node_calls(n))
      if n.kind == 'stmt' and isinstance(n.ast, (ast.Assign, ast.AugAssign, ast.Delete)):
        ts = n.ast.targets if isinstance(n.ast, (ast.Assign, ast.Delete)) else [n.ast.target]
        if any(isinstance(t, ast.Subscript) and isinstance(t.value, ast.Name) and t.value.id == nm for t in ts): hit = True
        if isinstance(n.ast, ast.AugAssign) and isinstance(n.ast.target, ast.Name) and n.ast.target.id == nm: hit = True
      if hit: muts.append(n)
    if not muts: continue
    IN, defn = reaching_defs(g, nm)
    muts = [n for n in muts if g.entry in IN[n]]
    if not muts: continue
    env = Env(dict((k, type(v)()) for k, v in cand.items()))
    reach = reach_under_cp(repo, module, g, env, cls)
    for n in muts:
      if n in reach: out.append((nm, n))
  return out

def crossed_arguments (repo, module):
  """calls in `module` to functions / methods of the same module whose positional arguments are plain names that are *also* the
  callee's parameter names, but bound crosswise: f(a, b) for def f(b, a).  [(caller Func, call, callee Func, [(arg name, bound to
  parameter)])].  Only exact two-way swaps are reported: argument i is named like parameter j and argument j like parameter i."""
  out = []
  fns = list(module.funcs.values()) + [f for c in module.classes.values() for f in c.methods.values()]
  for f in fns:
    for c in calls_in(f.node, nested=True):
      callee = None; skip = 0
      if isinstance(c.func, ast.Name):
        r = module.funcs.get(c.func.id)
        if r is not None: callee = r
      elif isinstance(c.func, ast.Attribute) and isinstance(c.func.value, ast.Name) and c.func.value.id == 'self' and f.cls is not None:
        callee = f.cls.find_method(c.func.attr); skip = 1
      if callee is None or any(isinstance(a, ast.Starred) for a in c.args): continue
      if 'staticmethod' in getattr(callee, 'decorators', ()): skip = 0
      ps = [a.arg for a in callee.node.args.args][skip:]
      bound = {}
      for i, a in enumerate(c.args):
        if i < len(ps) and isinstance(a, ast.Name): bound[ps[i]] = a.id
      for k in c.keywords:
        if k.arg is not None and isinstance(k.value, ast.Name): bound[k.arg] = k.value.id
      pairs = [(p1, p2) for p1 in bound for p2 in bound if p1 < p2 and bound[p1] == p2 and bound[p2] == p1]
      if pairs: out.append((f, c, callee, [(bound[p1], p1) for p1, p2 in pairs] + [(bound[p2], p2) for p1, p2 in pairs]))
  return out

def alias_of (fnode, e, attr_text):
  """is expression e the attribute `attr_text` (e.g. 'self._calls') or a local whose every definition in the function is a plain
  copy of that attribute?  (The caller is responsible for the attribute not being re-bound while the alias lives.)"""
  if norm(e) == attr_text: return True
  if isinstance(e, ast.Name):
    ds = [v for v, st_, k in reaching_assign(fnode, e.id)]
    return bool(ds) and all(v is not None and norm(v) == attr_text for v in ds)
  return False


def generator_misuse (repo, modules):
  """Functions of `modules` whose every return value is a one-shot iterator (generator expression, or the function is a
  generator) and callers in `modules` that treat the result as a container: truth test, len(), indexing, a second iteration.
  A generator object is always true and is exhausted by its first loop.  [(callee, caller_func, module, node, how)]"""
  lazy = {}
  allf = []
  for m in modules:
    allf += [(m, f) for f in m.funcs.values()] + [(m, f) for c in m.classes.values() for f in c.methods.values()]
  names = {}
  for m, f in allf: names.setdefault(f.name, []).append(f)
  for m, f in allf:
    rs = [r for r in returns_of(f.node) if r.value is not None]
    if rs and all(isinstance(r.value, ast.GeneratorExp) for r in rs) and not is_generator(f.node): lazy[f.name] = f
  out = []
  for nm, callee in lazy.items():
    if len(names[nm]) != 1: continue                  # several functions of that name: which one a call reaches is not decided here
    for m, f in allf:
      for t, v, st, k in stores_in(f.node, nested=False):
        if not (isinstance(t, ast.Name) and isinstance(v, ast.Call) and call_name(v) == nm and k == 'assign'): continue
        if len([1 for t2, v2, s2, k2 in stores_in(f.node, nested=False) if isinstance(t2, ast.Name) and t2.id == t.id]) != 1: continue
        var = t.id; loops = 0
        for x in walk_no_nested_(f.node):
          if isinstance(x, ast.UnaryOp) and isinstance(x.op, ast.Not) and isinstance(x.operand, ast.Name) and x.operand.id == var: out.append((callee, f, m, x, "`not %s`" % var))
          elif isinstance(x, (ast.If, ast.While, ast.IfExp)) and isinstance(x.test, ast.Name) and x.test.id == var: out.append((callee, f, m, x.test, "`if %s`" % var))
          elif isinstance(x, ast.Call) and call_name(x) in ('len', 'bool') and len(x.args) == 1 and isinstance(x.args[0], ast.Name) and x.args[0].id == var: out.append((callee, f, m, x, "`%s(%s)`" % (call_name(x), var)))
          elif isinstance(x, ast.Subscript) and isinstance(x.value, ast.Name) and x.value.id == var: out.append((callee, f, m, x, "`%s[...]`" % var))
          elif isinstance(x, (ast.For, ast.comprehension)) and isinstance(x.iter, ast.Name) and x.iter.id == var:
            loops += 1
            if loops == 2: out.append((callee, f, m, x.iter, "a second iteration over `%s`" % var))
  return out, len(lazy)

def walk_no_nested_ (node):
  from .model import walk_no_nested
  return walk_no_nested(node)


# ---------------------------------------------------------------------------
# local copies of attribute chains (`in_port = event.port`, `table = self.macToPort`) put back where they are used

def inline_attr_copies (fnode, roots, keep=(), deep=False):
  """rewrites fnode in place: a local with exactly one assignment, made at the top level of the function body, whose value is a
  pure attribute chain rooted at one of `roots` (parameter names / self), and whose chain is not re-bound anywhere in the function,
  is replaced by that chain at every load (nested functions included); the assignment goes.  Returns the names replaced."""
  import copy
  def chain_root (e):
    while isinstance(e, ast.Attribute): e = e.value
    return e.id if isinstance(e, ast.Name) else None
  stores = {}
  for n in ast.walk(fnode):
    if isinstance(n, ast.Name) and isinstance(n.ctx, (ast.Store, ast.Del)): stores[n.id] = stores.get(n.id, 0) + 1
    if isinstance(n, ast.arg): stores[n.arg] = stores.get(n.arg, 0) + 1
    if isinstance(n, (ast.Nonlocal, ast.Global)):
      for nm in n.names: stores[nm] = stores.get(nm, 0) + 2
  rebound = set(norm(n) for n in ast.walk(fnode) if isinstance(n, ast.Attribute) and isinstance(n.ctx, (ast.Store, ast.Del)))
  done = {}
  blocks = [fnode.body]
  if deep:      # also inside loops / with-blocks: the copy is made again on every pass, from an attribute nobody re-binds
    for n in ast.walk(fnode):
      if n is fnode or isinstance(n, (ast.FunctionDef, ast.AsyncFunctionDef, ast.Lambda)): continue
      for fld in ('body', 'orelse', 'finalbody'):
        b_ = getattr(n, fld, None)
        if isinstance(b_, list) and b_ and isinstance(b_[0], ast.stmt): blocks.append(b_)
  for blk in blocks:
    for st in list(blk):
      if isinstance(st, ast.Assign) and len(st.targets) == 1 and isinstance(st.targets[0], ast.Name) and isinstance(st.value, ast.Attribute) \
         and chain_root(st.value) in roots and st.targets[0].id not in keep and stores.get(st.targets[0].id) == 1 and norm(st.value) not in rebound and stores.get(chain_root(st.value), 0) <= 1:
        done[st.targets[0].id] = st.value
        blk.remove(st)
        if not blk: blk.append(ast.copy_location(ast.Pass(), st))
  if not done: return []
  class _R(ast.NodeTransformer):
    def visit_Name (self, n):
      if isinstance(n.ctx, ast.Load) and n.id in done: return ast.copy_location(copy.deepcopy(done[n.id]), n)
      return n
  _R().visit(fnode)
  ast.fix_missing_locations(fnode)
  return sorted(done)


def inline_container_aliases (fnode, root):
  """rewrites fnode in place: a local with exactly one assignment `<x> = <root>[<name>]` (a row of a table kept under its own name),
  where neither <root> nor <name> is re-bound between, is replaced by `<root>[<name>]` wherever it is loaded; the assignment goes.
  Only aliases of a *container* are put back (they are subscripted or tested for membership) - a value read out of a slot is not."""
  import copy
  stores = {}
  for n in ast.walk(fnode):
    if isinstance(n, ast.Name) and isinstance(n.ctx, (ast.Store, ast.Del)): stores[n.id] = stores.get(n.id, 0) + 1
  done = {}
  for n in ast.walk(fnode):
    for fld in ('body', 'orelse', 'finalbody'):
      blk = getattr(n, fld, None)
      if not isinstance(blk, list): continue
      for st in list(blk):
        if isinstance(st, ast.Assign) and len(st.targets) == 1 and isinstance(st.targets[0], ast.Name) and isinstance(st.value, ast.Subscript) and isinstance(st.value.value, ast.Name) \
           and st.value.value.id == root and isinstance(st.value.slice, ast.Name) and stores.get(st.targets[0].id) == 1 and stores.get(root, 0) <= 1:
          nm = st.targets[0].id
          uses = [x for x in ast.walk(fnode) if isinstance(x, ast.Name) and x.id == nm and isinstance(x.ctx, ast.Load)]
          parents_ok = True
          for p_ in ast.walk(fnode):
            for ch in ast.iter_child_nodes(p_):
              if ch in uses:
                ok = (isinstance(p_, ast.Subscript) and p_.value is ch) or (isinstance(p_, ast.Compare) and ch in p_.comparators and all(isinstance(o_, (ast.In, ast.NotIn)) for o_ in p_.ops))
                if not ok: parents_ok = False
          if uses and parents_ok:
            done[nm] = st.value; blk.remove(st)
  if not done: return []
  class _R(ast.NodeTransformer):
    def visit_Name (self, n):
      if isinstance(n.ctx, ast.Load) and n.id in done: return ast.copy_location(copy.deepcopy(done[n.id]), n)
      return n
  _R().visit(fnode); ast.fix_missing_locations(fnode)
  return sorted(done)
