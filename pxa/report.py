"""Obligation bookkeeping, known findings, evidence files and exit status."""
import json, os, time, hashlib, re

VERIF = os.path.dirname(os.path.dirname(os.path.abspath(__file__)))

OK, VIOL, UNDEC = 'discharged', 'violated', 'undecided'

class Obligation(object):
  __slots__ = ('rule', 'construct', 'detail', 'verdict', 'reason', 'file', 'line', 'clause', 'path')
  def __init__ (self, rule, construct, detail, verdict, reason, file=None, line=None, clause=None, path=None):
    self.rule = rule; self.construct = construct; self.detail = detail
    self.verdict = verdict; self.reason = reason; self.file = file; self.line = line
    self.clause = clause; self.path = path
  def key (self):
    return (self.rule, self.construct, self.detail)
  def as_dict (self):
    d = {'rule': self.rule, 'construct': self.construct, 'detail': self.detail,
         'verdict': self.verdict, 'reason': self.reason}
    if self.file: d['at'] = "%s:%s" % (self.file, self.line)
    if self.clause: d['clause'] = self.clause
    if self.path: d['path'] = self.path
    return d

class Ctx(object):
  def __init__ (self, prop, repo, tier='quick', seed=0):
    self.prop = prop; self.repo = repo; self.tier = tier; self.seed = seed
    self.obs = []; self.floors = []; self.notes = []
    self.functions = set(); self.stats = {}
    self.t0 = time.time()
    self.explanation = ''
    self.assumptions = []
  # -- recording
  def _loc (self, where):
    """where: Func | Cls | (module, astnode) | None -> (file, line)"""
    if where is None: return None, None
    if isinstance(where, tuple):
      m, n = where
      return m.rel(), getattr(n, 'lineno', None)
    mod = getattr(where, 'module', None)
    if mod is not None:
      return mod.rel(), where.line
    return None, None
  def ob (self, rule, construct, detail, good, reason, where=None, clause=None, path=None):
    """good: True -> discharged, False -> violated, None -> undecided"""
    v = OK if good is True else (VIOL if good is False else UNDEC)
    f, l = self._loc(where)
    if not isinstance(construct, str):
      construct = construct.qual
    o = Obligation(rule, construct, detail, v, reason, f, l, clause, path)
    self.obs.append(o)
    return o
  def ok (self, rule, construct, detail, reason, where=None, clause=None):
    return self.ob(rule, construct, detail, True, reason, where, clause)
  def bad (self, rule, construct, detail, reason, where=None, clause=None, path=None):
    return self.ob(rule, construct, detail, False, reason, where, clause, path)
  def undecided (self, rule, construct, detail, reason, where=None, clause=None):
    return self.ob(rule, construct, detail, None, reason, where, clause)
  def floor (self, name, found, required):
    self.floors.append((name, found, required))
  def analysed (self, f):
    self.functions.add(f if isinstance(f, str) else f.qual)
  def include (self, prop, constructs, why=''):
    """Properties share mechanisms: the obligations another property's check states about the functions named in `constructs`
    (substring of the obligation's construct) are obligations of this property too.  The other check is run on the same parsed
    repository in a sub-context; includes do not nest.  An anchor that check no longer finds gives an UNDECIDED obligation here
    (its own check reports it), never an alarm."""
    if getattr(self, '_included', False): return 0
    import importlib
    from .model import AnalysisError
    cache = getattr(self.repo, '_include_cache', None)
    if cache is None: cache = self.repo._include_cache = {}
    if prop not in cache:
      sub = Ctx(prop, self.repo, self.tier, self.seed); sub._included = True
      try:
        importlib.import_module('pxa.checks.c%s' % prop[1:].lower()).run(sub); sub._error = None
      except AnalysisError as e: sub._error = str(e)
      except Exception as e: sub._error = "%s: %s" % (type(e).__name__, e)
      cache[prop] = sub
    sub = cache[prop]
    n = 0
    for o in sub.obs:
      if any(c in o.construct for c in constructs):
        o2 = Obligation(o.rule, o.construct, o.detail + " [rule of %s%s]" % (prop, (': ' + why) if why else ''), o.verdict, o.reason, o.file, o.line, o.clause, o.path)
        self.obs.append(o2); n += 1
    for c in constructs:
      for fq in sub.functions:
        if c in fq: self.functions.add(fq)
    if sub._error and not n:
      self.undecided('R-SIB', "%s (shared)" % prop, "rules of %s about %s" % (prop, ', '.join(constructs)), "that check could not be carried out here: %s" % sub._error)
    self.stat('obligations shared from other properties', n)
    return n
  def stat (self, k, n=1):
    self.stats[k] = self.stats.get(k, 0) + n

def load_known ():
  p = os.path.join(VERIF, 'known_findings.json')
  if not os.path.exists(p): return {'recorded': [], 'fixed': []}
  with open(p) as f: return json.load(f)

def _slug (s):
  return re.sub(r'[^A-Za-z0-9_.-]+', '_', s)[:80]

def finish (ctx, selftest=None, write=True, evidence_dir=None, quiet=False):
  """Print report lines, write evidence, return exit status"""
  known = load_known()
  kset = {}
  for k in known.get('recorded', []):
    if k.get('property') == ctx.prop:
      kset[(k['rule'], k['construct'], k['detail'])] = k
  evidence_dir = evidence_dir or os.path.join(VERIF, 'evidence')
  replay_dir = os.path.join(evidence_dir, 'replay')
  viol = [o for o in ctx.obs if o.verdict == VIOL]
  new = []; kn = []
  for o in viol:
    if o.key() in kset: kn.append((o, kset[o.key()]))
    else: new.append(o)
  status = 0
  lines = []
  floor_fail = [(n, f, r) for (n, f, r) in ctx.floors if f < r]
  for n, f, r in floor_fail:
    lines.append("ANALYSIS-ERROR property=%s floor '%s': found %d, need >= %d (an anchor vanished or an idiom is no longer recognised)" % (ctx.prop, n, f, r))
    status = 2
  seen_kn = set()
  for o, k in kn:
    if o.key() in seen_kn: continue
    seen_kn.add(o.key())
    lines.append("KNOWN-FINDING: property=%s %s [%s %s %s]" % (ctx.prop, k.get('what_fails', o.reason), o.rule, o.construct, o.detail))
  if new and write:
    os.makedirs(replay_dir, exist_ok=True)
  for o in new:
    h = hashlib.sha1(repr(o.key()).encode()).hexdigest()[:8]
    rp = os.path.join(replay_dir, "%s-%s-%s-%s.json" % (ctx.prop, o.rule, _slug(o.construct), h))
    if write:
      with open(rp, 'w') as f:
        json.dump({'property': ctx.prop, 'obligation': o.as_dict(), 'key': list(o.key()),
                   'repo': ctx.repo.root, 'how_to_replay': "./check %s --explain %s" % (ctx.prop, rp)}, f, indent=1)
    lines.append("VIOLATION property=%s replay=%s" % (ctx.prop, rp))
    lines.append("  rule %s  %s:%s  %s" % (o.rule, o.file, o.line, o.construct))
    lines.append("  %s" % o.detail)
    for rl in str(o.reason).split('\n'): lines.append("  " + rl)
    if o.path: lines.append("  path: " + str(o.path))
    status = max(status, 1) if status != 2 else 2
  if new and status == 2: status = 1     # a definite violation outranks a floor problem
  n_ok = sum(1 for o in ctx.obs if o.verdict == OK)
  n_un = sum(1 for o in ctx.obs if o.verdict == UNDEC)
  lines.append("%s: %d obligations, %d discharged, %d undecided, %d known findings, %d new violations; %d functions analysed; %.2fs" % (
    ctx.prop, len(ctx.obs), n_ok, n_un, len(seen_kn), len(new), len(ctx.functions), time.time() - ctx.t0))
  if not quiet:
    print("\n".join(lines))
  # evidence
  distinct = len(set((o.rule, o.construct) for o in ctx.obs if o.verdict != UNDEC))
  samples = []
  seen_rules = {}
  for o in ctx.obs:           # a spread of samples: up to 2 per rule, violations first
    c = seen_rules.get(o.rule, 0)
    if c < 2 or o.verdict == VIOL:
      samples.append(o.as_dict()); seen_rules[o.rule] = c + 1
    if len(samples) >= 40: break
  by_rule = {}
  for o in ctx.obs:
    d = by_rule.setdefault(o.rule, {'obligations': 0, 'discharged': 0, 'violated': 0, 'undecided': 0})
    d['obligations'] += 1; d[o.verdict] += 1
  ev = {
    'property_id': ctx.prop, 'tier': ctx.tier, 'seed': ctx.seed, 'level': 'other',
    'coverage': {
      'explanation': ctx.explanation,
      'obligations': len(ctx.obs), 'discharged': n_ok, 'undecided': n_un,
      'known_findings': len(seen_kn), 'new_violations': len(new),
      'evaluations': len(ctx.obs), 'distinct_nontrivial': distinct,
      'rule': "one evaluation = one structural obligation (rule applied to one construct of /repo's current source); distinct = distinct (rule, construct) pairs that matched real code and were decided",
      'functions_analysed': len(ctx.functions),
      'functions': sorted(ctx.functions)[:200],
      'files_parsed': len(ctx.repo.modules),
      'floors': [{'name': n, 'found': f, 'required': r} for n, f, r in ctx.floors],
      'by_rule': by_rule,
      'stats': ctx.stats,
      'samples': samples,
      'undecided_list': [o.as_dict() for o in ctx.obs if o.verdict == UNDEC][:40],
      'known_finding_list': [o.as_dict() for o, k in kn][:40],
      'exhaustive': True,
      'checker_cmd': "./check %s --tier %s" % (ctx.prop, ctx.tier),
      'trusted_base': ['CPython ast/struct semantics', 'pxa engine (CFG, dominance, effect intervals, layout extraction)', 'spec tables under /verif/spec'],
    },
    'assumptions': ctx.assumptions,
    'wall_s': round(time.time() - ctx.t0, 3),
    'violations': len(new),
  }
  if ctx.notes: ev['coverage']['notes'] = ctx.notes
  if selftest is not None: ev['coverage']['selftest'] = selftest
  if write:
    os.makedirs(evidence_dir, exist_ok=True)
    with open(os.path.join(evidence_dir, ctx.prop + '.json'), 'w') as f:
      json.dump(ev, f, indent=1, default=str)
  return status, ev
