"""Self-test of a check (thorough tier): the check is run against scratch copies of
the tree under test with (a) each confirmed seeded breaking change of its
property applied - it must report a VIOLATION - and (b) each behaviour-preserving
twin applied - it must stay silent.  Outcomes are *reported* in the evidence and
as SELFTEST lines; they never change the check's exit status (when the tree under
test has itself been edited some edits will not apply)."""
import os, json, shutil, subprocess, tempfile, glob, time
from concurrent.futures import ThreadPoolExecutor

V = os.path.dirname(os.path.dirname(os.path.abspath(__file__)))

def _scratch (repo_root):
  tmp = tempfile.mkdtemp(prefix='pxa-selftest-', dir='/dev/shm' if os.path.isdir('/dev/shm') else None)
  for sub in ('pox', 'ext'):
    src = os.path.join(repo_root, sub)
    if os.path.isdir(src):
      shutil.copytree(src, os.path.join(tmp, sub), ignore=shutil.ignore_patterns('__pycache__'))
  return tmp

def _apply (tmp, patch):
  r = subprocess.run(['patch', '-p1', '-s', '-f', '-d', tmp, '-i', patch], capture_output=True, text=True)
  return r.returncode == 0

def _run (prop, tmp):
  c = subprocess.run([os.path.join(V, 'check'), prop, '--repo', tmp, '--no-write', '--tier', 'quick'], capture_output=True, text=True)
  viol = [l for l in c.stdout.splitlines() if l.startswith('VIOLATION')]
  first = ''
  if viol:
    ls = c.stdout.splitlines(); i = ls.index(viol[0])
    first = " | ".join(x.strip() for x in ls[i + 1:i + 3])[:200]
  return c.returncode, len(viol), first

def _one (args):
  prop, repo_root, kind, name, patch = args
  tmp = _scratch(repo_root)
  try:
    if not _apply(tmp, patch): return (kind, name, 'inapplicable', '')
    rc, nv, first = _run(prop, tmp)
    if kind == 'seed':
      return (kind, name, 'detected' if rc == 1 and nv else ('analysis-error' if rc == 2 else 'missed'), first)
    return (kind, name, 'silent' if rc == 0 else ('analysis-error' if rc == 2 else 'false-alarm'), first)
  finally:
    shutil.rmtree(tmp, ignore_errors=True)

def run_for (prop, repo_root):
  t0 = time.time()
  jobs = []
  for d in sorted(glob.glob(os.path.join(V, 'seeded', prop + '_*'))):
    p = os.path.join(d, 'patch.diff')
    if os.path.exists(p) and os.path.isdir(d): jobs.append((prop, repo_root, 'seed', os.path.basename(d), p))
  for p in sorted(glob.glob(os.path.join(V, 'selftest', 'mutants', prop + '_*.diff'))):
    jobs.append((prop, repo_root, 'seed', os.path.basename(p)[:-5], p))
  for p in sorted(glob.glob(os.path.join(V, 'selftest', 'benign', prop + '_*.diff'))):
    jobs.append((prop, repo_root, 'benign', os.path.basename(p)[:-5], p))
  res = []
  if jobs:
    with ThreadPoolExecutor(16) as ex: res = list(ex.map(_one, jobs))
  out = {'mutants_run': 0, 'detected': 0, 'missed': 0, 'inapplicable': 0, 'benign_run': 0, 'silent': 0, 'false_alarm': 0, 'analysis_error': 0, 'cases': [], 'lines': []}
  for kind, name, verdict, first in res:
    out['cases'].append({'kind': kind, 'name': name, 'verdict': verdict, 'first_report': first})
    if verdict == 'inapplicable': out['inapplicable'] += 1; continue
    if verdict == 'analysis-error': out['analysis_error'] += 1
    if kind == 'seed':
      out['mutants_run'] += 1
      if verdict == 'detected': out['detected'] += 1
      elif verdict == 'missed': out['missed'] += 1
    else:
      out['benign_run'] += 1
      if verdict == 'silent': out['silent'] += 1
      elif verdict == 'false-alarm': out['false_alarm'] += 1
    out['lines'].append("SELFTEST %s %s %s: %s%s" % (prop, kind, name, verdict, (" - " + first) if first and verdict != 'silent' else ''))
  out['lines'].append("SELFTEST %s summary: %d breaking variants run, %d detected, %d missed; %d benign twins run, %d silent, %d false alarms; %d inapplicable; %.1fs" % (
    prop, out['mutants_run'], out['detected'], out['missed'], out['benign_run'], out['silent'], out['false_alarm'], out['inapplicable'], time.time() - t0))
  out['wall_s'] = round(time.time() - t0, 2)
  return out
