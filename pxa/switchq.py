"""Queries shared by the checks anchored in pox/datapaths/switch.py (C04, C12,
C13, C18): handler tables built by naming convention, reply/ error effects,
request taint."""
import ast
from . import q, ofreg
from .model import AnalysisError, calls_in, call_name, norm, kwarg, walk_no_nested

SW = 'datapaths.switch'

def switch_class (repo):
  return repo.cls(SW, 'SoftwareSwitchBase')

def convention_tables (repo, ctx=None):
  """SoftwareSwitchBase.__init__ fills four handler tables with
  getattr(self, PREFIX + name).  Return {prefix: strip} for the loops found,
  e.g. {'_rx_': 'OFPT_', '_action_': 'OFPAT_', '_stats_': 'OFPST_', '_flow_mod_': 'OFPFC_'}.
  AnalysisError if the construction no longer has that shape."""
  sw = switch_class(repo)
  init = sw.methods.get('__init__')
  if init is None: raise AnalysisError("SoftwareSwitchBase.__init__ vanished")
  out = {}
  # (a table filled by a loop, or built in one go by a dict comprehension over the same name map)
  for loop in [n for n in walk_no_nested(init.node) if isinstance(n, (ast.For, ast.DictComp))]:
    prefix = strip = None
    for c in calls_in(loop):
      if call_name(c) == 'getattr' and len(c.args) >= 2 and isinstance(c.args[1], ast.BinOp) and \
         isinstance(c.args[1].left, ast.Constant) and isinstance(c.args[1].left.value, str):
        if norm(c.args[0]) == 'self': prefix = c.args[1].left.value
      if call_name(c) == 'split' and c.args and isinstance(c.args[0], ast.Constant) and isinstance(c.args[0].value, str):
        strip = c.args[0].value
    if prefix and strip: out[prefix] = strip
  # the same construction parameterised in a helper method: getattr(self, <param> + name) / split(<param>), called
  # from __init__ with constant prefixes
  for hf in sw.methods.values():
    if hf is init: continue
    ps = hf.params
    pfx_p = strip_p = None; pfx_c = strip_c = None
    for c in calls_in(hf.node, nested=True):
      if call_name(c) == 'getattr' and len(c.args) >= 2 and norm(c.args[0]) == 'self' and isinstance(c.args[1], ast.BinOp) and isinstance(c.args[1].op, ast.Add):
        l_ = c.args[1].left
        if isinstance(l_, ast.Name) and l_.id in ps: pfx_p = l_.id
        elif isinstance(l_, ast.Constant) and isinstance(l_.value, str): pfx_c = l_.value
      if call_name(c) == 'split' and c.args:
        a_ = c.args[0]
        if isinstance(a_, ast.Name) and a_.id in ps: strip_p = a_.id
        elif isinstance(a_, ast.Constant) and isinstance(a_.value, str): strip_c = a_.value
    if pfx_p is None and strip_p is None: continue
    for c in calls_in(init.node, nested=True):
      if isinstance(c.func, ast.Attribute) and c.func.attr == hf.name and norm(c.func.value) == 'self':
        def arg (pname):
          if pname is None: return None
          i = ps.index(pname) - 1
          v = kwarg(c, pname, i)
          return v.value if isinstance(v, ast.Constant) and isinstance(v.value, str) else None
        pfx = arg(pfx_p) if pfx_p else pfx_c
        strp = arg(strip_p) if strip_p else strip_c
        if pfx and strp: out[pfx] = strp
  for need in ('_rx_', '_action_', '_stats_', '_flow_mod_'):
    if need not in out:
      raise AnalysisError("SoftwareSwitchBase.__init__ no longer builds the %s* handler table by naming convention" % need)
  return out

def handler_for (sw, prefix, strip, const_name):
  """method the convention selects for e.g. OFPT_ECHO_REQUEST"""
  nm = const_name.split(strip, 1)[-1].lower()
  return sw.find_method(prefix + nm), prefix + nm

def is_send (c):
  return isinstance(c.func, ast.Attribute) and c.func.attr == 'send' and norm(c.func.value) == 'self'
def is_send_error (c):
  return isinstance(c.func, ast.Attribute) and c.func.attr == 'send_error' and norm(c.func.value) == 'self'
def is_reply_effect (c):
  return is_send(c) or is_send_error(c)

def reply_weight (repo, sw, depth=2, _stack=()):
  """weight function counting replies (send / send_error) performed by a CFG
  node, following self.<method>() calls to depth `depth` through summaries."""
  cache = {}
  def summary (f, d):
    key = f.qual
    if key in cache: return cache[key]
    if d <= 0 or key in _stack: return (0, 2)
    cache[key] = (0, 2)   # recursion guard
    g = q.cfg_of(f)
    iv = g.interval(lambda n: node_w(n, d - 1))
    cache[key] = iv if iv is not None else (0, 0)
    return cache[key]
  def node_w (n, d):
    lo = hi = 0
    for c in q.node_calls(n):
      if is_reply_effect(c): lo += 1; hi += 1
      elif isinstance(c.func, ast.Attribute) and norm(c.func.value) == 'self':
        f = sw.find_method(c.func.attr)
        if f is not None and f.name not in ('send', 'send_error'):
          a, b = summary(f, d)
          lo += a; hi += b
    return (lo, min(hi, 2))
  return lambda n: node_w(n, depth)

def tainted_locals (fnode, seeds):
  """names whose value derives (flow-insensitively) from the seed names"""
  t = set(seeds)
  changed = True
  while changed:
    changed = False
    for tgt, v, st, k in q.stores_in(fnode, nested=False):
      if v is None or not isinstance(tgt, ast.Name): continue
      if tgt.id in t: continue
      if q.names_in(v) & t:
        t.add(tgt.id); changed = True
  return t

def returns_classified (fnode):
  """[(return_ast_or_None, 'none'|'value')]"""
  out = []
  for r in q.returns_of(fnode):
    v = r.value
    if v is None or (isinstance(v, ast.Constant) and v.value is None): out.append((r, 'none'))
    else: out.append((r, 'value'))
  return out


def capacity_after_removal (ctx, repo, sw, clause):
  """OFPFC_ADD: the table-full test must come after the strict removal of the identical entry (shared by C04 and C13)"""
  import ast as _ast
  from . import q as _q
  from .model import call_name as _cn, norm as _norm
  add = sw.find_method('_flow_mod_add')
  if add is None: return
  g = _q.cfg_of(add)
  rems = g.nodes_with_call(lambda c: _cn(c) == 'remove_matching_entries')
  caps = [n for n in g.nodes if n.kind == 'cond' and 'max_entries' in _norm(n.ast)]
  if not (caps and rems): return
  fb = [b for b in g.nodes if b.kind == 'branch' and _norm(b.label[0]) in ('flow_mod.command == OFPFC_ADD', 'OFPFC_ADD == flow_mod.command') and b.label[1] is False]
  r = g.reachable(g.entry, avoid=set(rems) | set(fb))
  early = [c_ for c_ in caps if c_ in r]
  ctx.ob('R-ORDER', add, "the table-full test comes after the identical entry was removed (OFPFC_ADD)", not early, "removal precedes `%s`" % _norm(caps[0].ast)[:40] if not early else
         "`%s` is evaluated before the entry with identical match and priority is removed: with the table at max_entries an ADD that merely replaces an entry is answered with ALL_TABLES_FULL and not applied - "
         "an error for a message that needs no reply" % _norm(early[0].ast)[:40], (sw.module, (early or caps)[0].ast), clause)
