#!/venv/bin/python
"""Mechanical behaviour-preserving twins: applies one semantics-preserving AST transform to every function a
check analysed (taken from evidence/<ID>.json 'functions') in a scratch copy of /repo, runs the check there and
expects silence.  The transforms are correct by construction (alpha-renaming of locals, if/else inversion, ...),
so any VIOLATION is a false alarm of the rule and any exit 2 an idiom the rule does not recognise.
usage: autotwin.py [IDs ...] [--transform NAME] [--each]   (--each: one run per function instead of all at once)
       autotwin.py --validate NAME   (apply NAME to every function of pox/ and run the pinned test suite)"""
import sys, os, ast, json, shutil, subprocess, tempfile, builtins
from concurrent.futures import ThreadPoolExecutor
V = os.path.dirname(os.path.dirname(os.path.abspath(__file__)))
sys.path.insert(0, V)

SCOPES = (ast.FunctionDef, ast.AsyncFunctionDef, ast.Lambda, ast.ClassDef, ast.ListComp, ast.SetComp, ast.DictComp, ast.GeneratorExp)

def own_nodes (fn):
  """nodes of fn's own scope (not descending into nested scopes, but yielding the nested scope node itself)"""
  st = list(ast.iter_child_nodes(fn))
  while st:
    n = st.pop()
    yield n
    if isinstance(n, SCOPES): continue
    st.extend(ast.iter_child_nodes(n))

def binds_in_scope (sc):
  out = set()
  if isinstance(sc, (ast.FunctionDef, ast.AsyncFunctionDef, ast.Lambda)):
    a = sc.args
    for x in a.posonlyargs + a.args + a.kwonlyargs: out.add(x.arg)
    if a.vararg: out.add(a.vararg.arg)
    if a.kwarg: out.add(a.kwarg.arg)
  for n in own_nodes(sc):
    if isinstance(n, ast.Name) and isinstance(n.ctx, (ast.Store, ast.Del)): out.add(n.id)
    elif isinstance(n, ast.ExceptHandler) and n.name: out.add(n.name)
    elif isinstance(n, (ast.FunctionDef, ast.AsyncFunctionDef, ast.ClassDef)): out.add(n.name)
    elif isinstance(n, (ast.Import, ast.ImportFrom)):
      for al in n.names: out.add((al.asname or al.name).split('.')[0])
    elif isinstance(n, (ast.Global, ast.Nonlocal)): out.update(n.names)
  return out

def t_rename (fn, modnames):
  params = set()
  a = fn.args
  for x in a.posonlyargs + a.args + a.kwonlyargs: params.add(x.arg)
  if a.vararg: params.add(a.vararg.arg)
  if a.kwarg: params.add(a.kwarg.arg)
  skip = set(params)
  cand = set()
  for n in own_nodes(fn):
    if isinstance(n, ast.Name) and isinstance(n.ctx, (ast.Store, ast.Del)): cand.add(n.id)
    elif isinstance(n, ast.ExceptHandler) and n.name: cand.add(n.name)
    elif isinstance(n, (ast.Global, ast.Nonlocal)): skip.update(n.names)
    elif isinstance(n, (ast.Import, ast.ImportFrom)):
      for al in n.names: skip.add((al.asname or al.name).split('.')[0])
    elif isinstance(n, (ast.FunctionDef, ast.AsyncFunctionDef, ast.ClassDef)): skip.add(n.name)
  for n in ast.walk(fn):
    if n is not fn and isinstance(n, SCOPES): skip |= binds_in_scope(n)
    if isinstance(n, ast.Name) and n.id in ('locals', 'vars', 'eval', 'exec', 'dir', 'globals'): return 0
  ren = dict((v, v + '_r') for v in cand - skip if not v.startswith('__'))
  ren = dict((k, v) for k, v in ren.items() if v not in modnames)
  if not ren: return 0
  for n in ast.walk(fn):
    if isinstance(n, ast.Name) and n.id in ren: n.id = ren[n.id]
    elif isinstance(n, ast.ExceptHandler) and n.name in ren: n.name = ren[n.name]
  return len(ren)

def _neg (t):
  if isinstance(t, ast.UnaryOp) and isinstance(t.op, ast.Not): return t.operand
  return ast.UnaryOp(op=ast.Not(), operand=t)

def t_invert (fn, modnames):
  k = 0
  for n in ast.walk(fn):
    if isinstance(n, ast.If) and n.orelse and not (len(n.orelse) == 1 and isinstance(n.orelse[0], ast.If)):
      n.body, n.orelse = n.orelse, n.body; n.test = _neg(n.test); k += 1
  return k

def _blocks (fn):
  for n in ast.walk(fn):
    for f in ('body', 'orelse', 'finalbody'):
      b = getattr(n, f, None)
      if isinstance(b, list) and b and isinstance(b[0], ast.stmt): yield n, f, b
    if isinstance(n, ast.Try):
      for h in n.handlers: pass

def t_rettemp (fn, modnames):
  k = 0
  for n, f, b in list(_blocks(fn)):
    nb = []
    for s in b:
      if isinstance(s, ast.Return) and s.value is not None and not isinstance(s.value, (ast.Name, ast.Constant)) and _owner(fn, s):
        nb.append(ast.Assign(targets=[ast.Name(id='rv_t', ctx=ast.Store())], value=s.value, lineno=s.lineno))
        nb.append(ast.Return(value=ast.Name(id='rv_t', ctx=ast.Load()))); k += 1
      else: nb.append(s)
    setattr(n, f, nb)
  return k

def _owner (fn, stmt):
  # stmt belongs to fn's own scope (not a nested def)
  for n in own_nodes(fn):
    if n is stmt: return True
  return False

def t_whiletrue (fn, modnames):
  k = 0
  for n in ast.walk(fn):
    if isinstance(n, ast.While) and not n.orelse and not (isinstance(n.test, ast.Constant) and n.test.value in (True, 1)):
      n.body = [ast.If(test=_neg(n.test), body=[ast.Break()], orelse=[])] + n.body
      n.test = ast.Constant(value=True); k += 1
  return k

def t_condtemp (fn, modnames):
  k = 0
  for n, f, b in list(_blocks(fn)):
    nb = []
    for s in b:
      if isinstance(s, ast.If) and _owner(fn, s) and not isinstance(s.test, (ast.Name, ast.Constant)) and not any(isinstance(x, (ast.NamedExpr, ast.Yield, ast.YieldFrom, ast.Await)) for x in ast.walk(s.test)):
        k += 1; nm = 'c_t%d' % k
        nb.append(ast.Assign(targets=[ast.Name(id=nm, ctx=ast.Store())], value=s.test, lineno=s.lineno))
        s.test = ast.Name(id=nm, ctx=ast.Load())
      nb.append(s)
    setattr(n, f, nb)
  return k

def t_earlyret (fn, modnames):
  """trailing `if c: A` (no else) at the end of a function body -> `if not c: return` + A  (A must not be empty)"""
  b = fn.body
  if b and isinstance(b[-1], ast.If) and not b[-1].orelse and not any(isinstance(x, (ast.Yield, ast.YieldFrom)) for x in ast.walk(fn)):
    s = b[-1]
    fn.body = b[:-1] + [ast.If(test=_neg(s.test), body=[ast.Return(value=None)], orelse=[])] + s.body
    return 1
  return 0

def t_log (fn, modnames):
  if '<log>' not in modnames: return 0
  if any(isinstance(x, (ast.Global, ast.Nonlocal)) for x in ast.walk(fn)) and False: return 0
  call = ast.Expr(value=ast.Call(func=ast.Attribute(value=ast.Name(id='log', ctx=ast.Load()), attr='debug', ctx=ast.Load()),
                                 args=[ast.Constant(value='enter ' + fn.name)], keywords=[]))
  i = 1 if (fn.body and isinstance(fn.body[0], ast.Expr) and isinstance(fn.body[0].value, ast.Constant) and isinstance(fn.body[0].value.value, str)) else 0
  if 'log' in binds_in_scope(fn): return 0
  fn.body.insert(i, call)
  return 1

T = {'rename': t_rename, 'invert': t_invert, 'rettemp': t_rettemp, 'whiletrue': t_whiletrue, 'condtemp': t_condtemp, 'earlyret': t_earlyret, 'log': t_log}

def find_fn (tree, qual):
  cur = [tree]
  parts = qual.split('.')
  node = tree
  for p in parts:
    nxt = None
    for c in node.body:
      if isinstance(c, (ast.FunctionDef, ast.AsyncFunctionDef, ast.ClassDef)) and c.name == p: nxt = c
    if nxt is None: return None
    node = nxt
  return node if isinstance(node, (ast.FunctionDef, ast.AsyncFunctionDef)) else None

def all_fns (tree):
  for n in ast.walk(tree):
    if isinstance(n, (ast.FunctionDef, ast.AsyncFunctionDef)): yield n

def apply (root, tname, fnids=None):
  """fnids: iterable 'mod.path:Qual.name' or None for every function under root/pox"""
  bymod = {}
  if fnids is None:
    for dp, dn, fs in os.walk(os.path.join(root, 'pox')):
      for f in fs:
        if f.endswith('.py'): bymod[os.path.join(dp, f)] = None
  else:
    for fid in fnids:
      mod, q = fid.split(':', 1)
      p = os.path.join(root, 'pox', *mod.split('.')) + '.py'
      if not os.path.exists(p): p = os.path.join(root, 'pox', *mod.split('.'), '__init__.py')
      bymod.setdefault(p, []).append(q)
  n = 0; nf = 0
  for p, quals in bymod.items():
    try: src = open(p).read(); tree = ast.parse(src)
    except Exception: continue
    modnames = set(x.id for x in ast.walk(tree) if isinstance(x, ast.Name)) | set(dir(builtins))
    modnames |= set(x.arg for x in ast.walk(tree) if isinstance(x, ast.arg))
    if any(isinstance(x, ast.Assign) and any(isinstance(t, ast.Name) and t.id == 'log' for t in x.targets) for x in tree.body): modnames.add('<log>')
    fns = list(all_fns(tree)) if quals is None else [f for f in (find_fn(tree, q) for q in quals) if f is not None]
    k = 0
    # innermost first so nested functions are handled before their parents rename around them
    for fn in sorted(fns, key=lambda f: -f.lineno):
      c = T[tname](fn, modnames)
      if c: nf += 1
      k += c
    if k:
      ast.fix_missing_locations(tree)
      open(p, 'w').write(ast.unparse(tree) + "\n"); n += k
  return n, nf

def scratch ():
  tmp = tempfile.mkdtemp(prefix='autotwin-', dir='/dev/shm')
  for sub in ('pox', 'ext', 'tests', 'tools'):
    if os.path.isdir(os.path.join('/repo', sub)):
      shutil.copytree(os.path.join('/repo', sub), os.path.join(tmp, sub), ignore=shutil.ignore_patterns('__pycache__'))
  for f in os.listdir('/repo'):
    if os.path.isfile(os.path.join('/repo', f)): shutil.copy(os.path.join('/repo', f), tmp)
  return tmp

def run_check (prop, tmp):
  c = subprocess.run([os.path.join(V, 'check'), prop, '--repo', tmp, '--no-write'], capture_output=True, text=True)
  ls = c.stdout.splitlines()
  v = [l for l in ls if l.startswith('VIOLATION')]
  if v:
    i = ls.index(v[0]); return c.returncode, " | ".join(x.strip() for x in ls[i + 1:i + 3])[:260], len(v)
  if c.returncode == 2:
    return 2, " | ".join(x.strip() for x in ls + c.stderr.splitlines() if 'UNDECIDED' in x or 'ANALYSIS' in x or 'FLOOR' in x.upper())[:260], 0
  return c.returncode, '', 0

def one (job):
  prop, tname, fnids, label = job
  tmp = scratch()
  try:
    n, nf = apply(tmp, tname, fnids)
    if not n: return prop, tname, label, 'no-op', '', 0
    r = subprocess.run('/venv/bin/python -m compileall -q pox >/dev/null', shell=True, cwd=tmp)
    if r.returncode: return prop, tname, label, 'COMPILE-FAIL', '', n
    rc, first, nv = run_check(prop, tmp)
    return prop, tname, label, {0: 'silent', 1: 'FALSE-ALARM(%d)' % nv, 2: 'rc2'}.get(rc, 'rc%d' % rc), first, n
  finally:
    shutil.rmtree(tmp, ignore_errors=True)

if __name__ == '__main__':
  if '--validate' in sys.argv:
    tn = sys.argv[sys.argv.index('--validate') + 1]
    tmp = scratch()
    try:
      n, nf = apply(tmp, tn, None)
      print("applied %s: %d edits in %d functions" % (tn, n, nf))
      r = subprocess.run(['/venv/bin/python', os.path.join(V, 'tools', 'baseline.py'), tmp], capture_output=True, text=True)
      print(r.stdout[-400:], r.stderr[-400:], 'rc', r.returncode)
    finally:
      shutil.rmtree(tmp, ignore_errors=True)
    sys.exit(0)
  from pxa.props import CLAIMED
  ids = [a for a in sys.argv[1:] if a.startswith('C')] or CLAIMED
  tnames = [sys.argv[sys.argv.index('--transform') + 1]] if '--transform' in sys.argv else sorted(T)
  each = '--each' in sys.argv
  jobs = []
  for p in ids:
    ev = json.load(open(os.path.join(V, 'evidence', p + '.json')))
    fns = ev['coverage'].get('functions', [])
    for tn in tnames:
      if each:
        for f in fns: jobs.append((p, tn, [f], f))
      else: jobs.append((p, tn, fns, 'all %d analysed functions' % len(fns)))
  with ThreadPoolExecutor(14) as ex: res = list(ex.map(one, jobs))
  bad = 0
  for prop, tn, label, verdict, first, n in res:
    if verdict in ('silent', 'no-op'):
      if not each: print("%-4s %-10s %-34s %-8s (%d edits)" % (prop, tn, label, verdict, n))
      continue
    bad += 1
    print("%-4s %-10s %-34s %-14s (%d edits) %s" % (prop, tn, label, verdict, n, first))
  print("runs: %d, non-silent: %d" % (len(res), bad))
