#!/venv/bin/python
"""Runs the repository's pinned test suite (guard off - there are no hooks) and
compares the passing set with BASELINE.json's stable_pass list.
usage: baseline.py [repo_dir]   exit 0 iff every stable test still passes."""
import json, os, subprocess, sys, tempfile, xml.etree.ElementTree as ET
repo = sys.argv[1] if len(sys.argv) > 1 else '/repo'
base = json.load(open('/root/.vp/BASELINE.json'))
want = set(base['stable_pass'])
fd, xml = tempfile.mkstemp(suffix='.xml'); os.close(fd)
env = dict(os.environ); env.pop('NOXREPO_POX_VERIF', None)
subprocess.run(['/venv/bin/python', '-m', 'pytest', '-ra', '-q', '-p', 'no:cacheprovider', '--timeout=900',
                '--continue-on-collection-errors', '--junitxml=' + xml], cwd=repo, env=env,
               stdout=subprocess.DEVNULL, stderr=subprocess.DEVNULL)
passed = set()
for tc in ET.parse(xml).getroot().iter('testcase'):
  if not any(c.tag in ('failure', 'error', 'skipped') for c in tc):
    passed.add("%s::%s" % (tc.get('classname'), tc.get('name')))
os.unlink(xml)
missing = sorted(want - passed)
print("baseline: %d/%d stable tests pass" % (len(want) - len(missing), len(want)))
for m in missing: print("  NOT PASSING:", m)
sys.exit(1 if missing else 0)
