#!/venv/bin/python
"""Runs the checks against every behaviour-preserving twin under /verif/selftest/benign/: each must leave
its property's check (and, with --all-checks, every check) silent.
usage: benignrun.py [twin-id ...] [--all-checks]"""
import sys, os, json, subprocess, shutil, tempfile, glob
from concurrent.futures import ThreadPoolExecutor
V = os.path.dirname(os.path.dirname(os.path.abspath(__file__)))
args = [a for a in sys.argv[1:] if not a.startswith('-')]
allchecks = '--all-checks' in sys.argv
sys.path.insert(0, V)
from pxa.props import CLAIMED
twins = args or sorted(os.path.basename(p)[:-5] for p in glob.glob(os.path.join(V, 'selftest', 'benign', '*.diff')))
def one (tid):
  patch = os.path.join(V, 'selftest', 'benign', tid + '.diff'); prop = tid.split('_')[0]
  tmp = tempfile.mkdtemp(prefix='benrun-', dir='/dev/shm')
  try:
    for sub in ('pox', 'ext'):
      shutil.copytree(os.path.join(os.environ.get('REPO_ROOT', '/repo'), sub), os.path.join(tmp, sub), ignore=shutil.ignore_patterns('__pycache__'))
    r = subprocess.run(['patch', '-p1', '-s', '-f', '-d', tmp, '-i', patch], capture_output=True, text=True)
    if r.returncode != 0: return tid, prop, 'APPLY-FAILED', (r.stdout + r.stderr)[-200:]
    res = {}
    for p in (CLAIMED if allchecks else [prop]):
      if p not in CLAIMED: continue
      c = subprocess.run([os.path.join(V, 'check'), p, '--repo', tmp, '--no-write'], capture_output=True, text=True)
      ls = c.stdout.splitlines()
      v = [l for l in ls if l.startswith('VIOLATION')]
      first = ''
      if v: i = ls.index(v[0]); first = " | ".join(x.strip() for x in ls[i + 1:i + 4])
      elif c.returncode == 2: first = " | ".join(x.strip() for x in ls if 'UNDECIDED' in x or 'ANALYSIS' in x or 'floor' in x.lower())[:300]
      res[p] = ('silent' if c.returncode == 0 else ('UNDECIDED/ERROR(rc2)' if c.returncode == 2 else 'FALSE-ALARM'), first[:300])
    return tid, prop, res, ''
  finally:
    shutil.rmtree(tmp, ignore_errors=True)
with ThreadPoolExecutor(8) as ex: out = list(ex.map(one, twins))
bad = 0
for tid, prop, res, err in out:
  if isinstance(res, str): print("%-10s %s %s" % (tid, res, err)); continue
  for p, (verdict, first) in sorted(res.items()):
    if verdict != 'silent': bad += 1
    if verdict != 'silent' or p == prop: print("%-10s %-4s %-20s %s" % (tid, p, verdict, first))
print("twins: %d, non-silent verdicts: %d" % (len(out), bad))
