#!/venv/bin/python
"""Confirms a behaviour-preserving twin produced by a sub-agent and files it under /verif/selftest/benign/.
usage: confirm_benign.py <PROP> <a|b|c|d> [--src /tmp/benign/<PROP>/_seed] [--name r1a]
Steps (fresh scratch worktree of /repo HEAD under /dev/shm, removed afterwards):
  1. sanity program on the unchanged tree -> must exit 0
  2. git apply; py_compile touched files   -> must compile
  3. sanity program with the patch         -> must exit 0
  4. pinned test suite with the patch      -> the 46 stable tests must still pass
The equivalence argument itself (agent's notes.md) is read by hand before the twin is kept;
the accepted twin is stored as <PROP>_<name>.diff with a .json record next to it."""
import sys, os, subprocess, json, shutil, time, argparse, tempfile
ap = argparse.ArgumentParser(); ap.add_argument('prop'); ap.add_argument('which'); ap.add_argument('--src'); ap.add_argument('--name', default=''); ap.add_argument('--base', default='HEAD', help='commit of /repo the twin was written against (when a later fix commit changed the behaviour its sanity program pins)')
ap.add_argument('--why', default='')
a = ap.parse_args()
src = a.src or '/tmp/benign/%s/_seed' % a.prop
patch = os.path.join(src, a.which + '.diff'); sanity = os.path.join(src, 'sanity.py')
wt = tempfile.mkdtemp(prefix='benchk-', dir='/dev/shm'); os.rmdir(wt)
def sh (cmd, **kw): return subprocess.run(cmd, shell=True, capture_output=True, text=True, **kw)
ran = []
try:
  r = sh('git -C /repo worktree add -q --detach %s %s' % (wt, a.base)); assert r.returncode == 0, r.stderr
  os.makedirs(wt + '/_seed')
  for f in os.listdir(src):
    if f.endswith('.py'): shutil.copy(os.path.join(src, f), wt + '/_seed/')
  dcmd = 'cd %s && timeout 170 /venv/bin/python -u _seed/sanity.py' % wt
  has_sanity = os.path.exists(sanity)
  r1 = sh(dcmd) if has_sanity else None
  if r1: ran.append(('sanity on unchanged tree', dcmd, r1.returncode, (r1.stdout + r1.stderr)[-300:]))
  r = sh('git -C %s apply --check %s && git -C %s apply %s' % (wt, patch, wt, patch))
  if r.returncode != 0: r = sh('git -C %s apply -3 %s' % (wt, patch))
  applied = r.returncode == 0
  files = [l[6:].strip() for l in open(patch) if l.startswith('+++ b/')]
  rc = sh('cd %s && /venv/bin/python -m py_compile %s' % (wt, ' '.join(files))) if applied else None
  r2 = sh(dcmd) if applied and has_sanity else None
  if r2: ran.append(('sanity with patch', dcmd, r2.returncode, (r2.stdout + r2.stderr)[-300:]))
  r3 = sh('/venv/bin/python /verif/tools/baseline.py %s' % wt) if applied else None
  if r3: ran.append(('test suite with patch', 'tools/baseline.py <worktree>', r3.returncode, r3.stdout[-200:]))
  good = applied and rc.returncode == 0 and r3.returncode == 0 and (not has_sanity or (r1.returncode == 0 and r2.returncode == 0))
  newdiff = sh('git -C %s diff' % wt).stdout if applied else ''
  print("benign %s/%s: sanity clean rc=%s, apply=%s, compile=%s, sanity patched rc=%s, suite rc=%s => %s" % (
    a.prop, a.which, r1.returncode if r1 else None, applied, rc.returncode if rc else None, r2.returncode if r2 else None, r3.returncode if r3 else None, "ACCEPTED" if good else "REJECTED"))
  if not good:
    for x in ran: print("  ", x)
  if good:
    outd = '/verif/selftest/benign'; os.makedirs(outd, exist_ok=True)
    base = '%s/%s_%s' % (outd, a.prop, a.name or a.which)
    open(base + '.diff', 'w').write(newdiff)
    # keep the sanity program (one per property and batch) so that tools/normcheck.py can run it on the normalised sources later,
    # and the agent's equivalence argument
    sd = outd + '/sanity'; os.makedirs(sd, exist_ok=True)
    shutil.copy(sanity, '%s/%s_%s.py' % (sd, a.prop, (a.name or a.which)[:-1]))
    nf = os.path.join(src, 'notes_%s.md' % a.which)
    if os.path.exists(nf) and not a.why: a.why = open(nf).read()[:1500]
    json.dump({'property': a.prop, 'variant': a.name or a.which, 'files': files, 'why_equivalent': a.why,
               'base_commit': sh('git -C /repo rev-parse --short %s' % a.base).stdout.strip(), 'confirmed': time.strftime('%Y-%m-%d %H:%M'),
               'what_i_ran': [{'step': s, 'cmd': c, 'rc': rc_, 'tail': t} for s, c, rc_, t in ran]}, open(base + '.json', 'w'), indent=1)
finally:
  sh('git -C /repo worktree remove --force %s' % wt); shutil.rmtree(wt, ignore_errors=True)
