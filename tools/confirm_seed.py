#!/venv/bin/python
"""Confirms a seeded breaking change produced by a sub-agent and files it under /verif/seeded/.
usage: confirm_seed.py <PROP> <a|b> [--src /tmp/seed/<PROP>/_seed] [--needs "..."]
Steps (all in a fresh scratch worktree of /repo HEAD under /dev/shm, removed afterwards):
  1. demo on the unchanged tree  -> must exit 0
  2. git apply patch; py_compile touched files -> must compile
  3. demo with the patch         -> must exit non-zero
  4. pinned test suite with the patch -> the 46 stable tests must still pass
"""
import sys, os, subprocess, json, shutil, time, argparse, tempfile
ap = argparse.ArgumentParser(); ap.add_argument('prop'); ap.add_argument('which'); ap.add_argument('--src'); ap.add_argument('--needs', default='')
ap.add_argument('--breaks', default='')
ap.add_argument('--name', default='', help='output directory suffix (default: <which>), e.g. r2a for second-round seeds')
a = ap.parse_args()
src = a.src or '/tmp/seed/%s/_seed' % a.prop
patch = os.path.join(src, a.which + '.diff'); demo = os.path.join(src, 'demo_%s.py' % a.which)
wt = tempfile.mkdtemp(prefix='seedchk-', dir='/dev/shm'); os.rmdir(wt)
def sh (cmd, **kw): return subprocess.run(cmd, shell=True, capture_output=True, text=True, **kw)
ran = []
try:
  r = sh('git -C /repo worktree add -q --detach %s HEAD' % wt); assert r.returncode == 0, r.stderr
  os.makedirs(wt + '/_seed'); shutil.copy(demo, wt + '/_seed/'); 
  for f in os.listdir(src):
    if f.endswith('.py') and f not in os.listdir(wt + '/_seed'): shutil.copy(os.path.join(src, f), wt + '/_seed/')
  dcmd = 'cd %s && timeout 170 /venv/bin/python -u _seed/demo_%s.py' % (wt, a.which)
  r1 = sh(dcmd); ran.append(('demo on unchanged tree', dcmd, r1.returncode, (r1.stdout + r1.stderr)[-300:]))
  r = sh('git -C %s apply --check %s && git -C %s apply %s' % (wt, patch, wt, patch))
  if r.returncode != 0:
    r = sh('git -C %s apply -3 %s' % (wt, patch))
  ran.append(('apply', 'git apply', r.returncode, r.stderr[-300:]))
  applied = r.returncode == 0
  files = [l[6:].strip() for l in open(patch) if l.startswith('+++ b/')]
  rc = sh('cd %s && /venv/bin/python -m py_compile %s' % (wt, ' '.join(files))) if applied else None
  r2 = sh(dcmd) if applied else None
  if r2: ran.append(('demo with patch', dcmd, r2.returncode, (r2.stdout + r2.stderr)[-400:]))
  r3 = sh('/venv/bin/python /verif/tools/baseline.py %s' % wt) if applied else None
  if r3: ran.append(('test suite with patch', 'tools/baseline.py <worktree>', r3.returncode, r3.stdout[-200:]))
  good = applied and r1.returncode == 0 and rc.returncode == 0 and r2.returncode not in (0, 124) and r3.returncode == 0
  # regenerate the diff against HEAD so it applies cleanly with plain `git apply`
  newdiff = sh('git -C %s diff' % wt).stdout if applied else ''
  print("seed %s/%s: demo clean rc=%s, apply=%s, compile=%s, demo patched rc=%s, suite rc=%s => %s" % (
    a.prop, a.which, r1.returncode, applied, rc.returncode if rc else None, r2.returncode if r2 else None, r3.returncode if r3 else None, "CONFIRMED" if good else "REJECTED"))
  if not good:
    for x in ran: print("  ", x)
  if good:
    out = '/verif/seeded/%s_%s' % (a.prop, a.name or a.which); os.makedirs(out, exist_ok=True)
    open(out + '/patch.diff', 'w').write(newdiff)
    shutil.copy(demo, out + '/demo.py')
    notes = os.path.join(src, 'notes.md')
    if not os.path.exists(notes): notes = os.path.join(src, 'notes_%s.md' % a.which)
    if os.path.exists(notes):
      shutil.copy(notes, out + '/agent_notes.md')
      if not a.needs:
        ls_ = [l.strip() for l in open(notes) if 'need' in l.lower() or 'manifest' in l.lower()]
        a.needs = ' '.join(ls_)[:900] or 'see agent_notes.md'
      if not a.breaks:
        ls_ = [l.strip() for l in open(notes) if 'break' in l.lower() or 'clause' in l.lower() or 'violat' in l.lower()]
        a.breaks = ' '.join(ls_)[:900] or 'see agent_notes.md'
    meta = {'property': a.prop, 'variant': a.name or a.which, 'files': files, 'breaks': a.breaks, 'needs_to_manifest': a.needs,
            'base_commit': sh('git -C /repo rev-parse --short HEAD').stdout.strip(),
            'confirmed': time.strftime('%Y-%m-%d %H:%M'),
            'what_i_ran': [{'step': s, 'cmd': c, 'rc': rc_, 'tail': t} for s, c, rc_, t in ran],
            'run_demo': 'cd <worktree of /repo> && timeout 170 /venv/bin/python -u <this dir>/demo.py  (exit 0 = PASS on the unchanged tree, non-zero with patch.diff applied)'}
    json.dump(meta, open(out + '/meta.json', 'w'), indent=1)
finally:
  sh('git -C /repo worktree remove --force %s' % wt); shutil.rmtree(wt, ignore_errors=True)
