#!/venv/bin/python
"""Writes spec/inventory.json: the reference vocabulary (functions and their local names) of the tree the rules
were confirmed against.  Run ONLY when the rules have been re-confirmed against a new reference tree.
usage: mkinventory.py [/repo]"""
import sys, os, ast, json
V = os.path.dirname(os.path.dirname(os.path.abspath(__file__))); sys.path.insert(0, V)
from pxa import norm
root = sys.argv[1] if len(sys.argv) > 1 else '/repo'
inv = {}; skel = {}
for dp, dn, fs in os.walk(os.path.join(root, 'pox')):
  dn[:] = sorted(d for d in dn if d != '__pycache__')
  for f in sorted(fs):
    if not f.endswith('.py'): continue
    p = os.path.join(dp, f)
    rel = os.path.relpath(p, root)[:-3].replace(os.sep, '.')
    if rel.endswith('.__init__'): rel = rel[:-9]
    try: tree = ast.parse(open(p, encoding='utf-8', errors='replace').read())
    except SyntaxError: continue
    inv[rel] = norm.module_inventory(tree)
    skel[rel] = norm.module_skeletons(tree)
allp = set()
for dp, dn, fs in os.walk(os.path.join(root, 'pox')):
  for f in fs:
    if f.endswith('.py'):
      try: allp |= norm.private_names(ast.parse(open(os.path.join(dp, f), encoding='utf-8', errors='replace').read()))
      except SyntaxError: pass
skel['<private-names>'] = {'names': sorted(allp)}
json.dump(inv, open(os.path.join(V, 'spec', 'inventory.json'), 'w'), indent=0, sort_keys=True)
json.dump(skel, open(os.path.join(V, 'spec', 'skeletons.json'), 'w'), indent=0, sort_keys=True)
print("modules: %d, functions: %d" % (len(inv), sum(len(v) for v in inv.values())))
