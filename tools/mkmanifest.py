#!/venv/bin/python
"""Regenerates /verif/MANIFEST.json from pxa/props.py (claimed properties = those with a
check module and a props entry; every other property goes to not_applicable)."""
import json, os, sys
V = os.path.dirname(os.path.dirname(os.path.abspath(__file__)))
sys.path.insert(0, V)
from pxa import props
ids = [json.loads(l)['id'] for l in open(os.path.join(V, 'properties.jsonl'))]
checks = []; na = []
for i in ids:
  have = os.path.exists(os.path.join(V, 'pxa', 'checks', i.lower() + '.py')) and i in props.P
  if have:
    p = props.P[i]
    checks.append({
      'property_id': i,
      'quick_cmd': './check %s --tier quick' % i,
      'thorough_cmd': './check %s --tier thorough' % i,
      'evidence_file': '/verif/evidence/%s.json' % i,
      'replay_cmd_template': './check %s --explain {path}' % i,
      'engine': 'pxa',
      'level_claimed': {'category': 'other', 'text': p['text'], 'design_ref': p['ref']},
      'level_note': p['note'] + props.COMMON_NOTE,
      'technique': 'static analysis: ' + p['technique'],
    })
  else:
    na.append({'property_id': i, 'reason': props.NOT_APPLICABLE.get(i, 'no static check built yet for this property (work in progress); not claimed')})
m = {
  'version': 1,
  'setup_cmd': '/venv/bin/python -m compileall -q pxa && ./check --selfcheck',
  'hooks': {'guard': 'NOXREPO_POX_VERIF', 'enable': 'none - static analysis reads /repo sources; no hooks or instrumentation exist',
            'baseline_off_cmd': '/venv/bin/python /verif/tools/baseline.py /repo', 'source_commits': [], 'add_only': True},
  'engines': [{'name': 'pxa', 'path': '/verif/pxa', 'serves_properties': [c['property_id'] for c in checks],
               'kind_free_text': 'repository-specific static analyser (Python ast): module/star-import/class resolution, statement CFG with split conditions, dominance/post-dominance, effect intervals, ownership and def-use queries, codec byte-layout extraction, bytes/str typing; no code of /repo is executed'}],
  'checks': checks,
  'not_applicable': na,
  'notes': 'All checks parse /repo\'s working tree on every run. Exit 0 = all structural obligations discharged (or listed known finding), 1 = VIOLATION, 2 = ANALYSIS-ERROR (vanished anchor / below floor). Known and fixed findings: /verif/known_findings.json. Seeded breaking changes: /verif/seeded/.',
}
json.dump(m, open(os.path.join(V, 'MANIFEST.json'), 'w'), indent=1)
print("MANIFEST: %d checks, %d not_applicable" % (len(checks), len(na)))
