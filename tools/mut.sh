#!/bin/bash
# usage: mut.sh <mutant-name> [prop]   -- applies selftest/mutants/<name>.diff on scratch copy and runs check
m=$1; p=${2:-${m%%_*}}; T=/dev/shm/mut_$$; mkdir -p $T; cp -r /repo/pox /repo/ext $T/
f=/verif/selftest/mutants/$m.diff; [ -f $f ] || f=/verif/selftest/benign/$m.diff; [ -f $f ] || f=/verif/seeded/$m/patch.diff; [ -f $f ] || f=$m
patch -p1 -s -d $T -i $f || echo PATCHFAIL
cd /verif; ./check $p --repo $T --no-write > /tmp/mut_out.$$ 2>&1; echo "rc=$?"; cat /tmp/mut_out.$$ | grep -A3 '^VIOLATION\|ANALYSIS' | cut -c1-400; tail -1 /tmp/mut_out.$$; rm -rf $T /tmp/mut_out.$$
