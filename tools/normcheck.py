#!/venv/bin/python
"""Validates the normaliser (pxa/norm.py) itself - not a property check: for each behaviour-preserving twin,
apply it to a scratch copy, normalise every module (helper inlining, temporary expansion, desugaring), write the
normalised source back (ast.unparse) and run the pinned test suite and the twin's sanity program on the
normalised code.  If they pass, the rewriting preserved behaviour on everything those programs exercise.
usage: normcheck.py [twin ids...]"""
import sys, os, ast, glob, shutil, subprocess, tempfile
from concurrent.futures import ThreadPoolExecutor
V = os.path.dirname(os.path.dirname(os.path.abspath(__file__))); sys.path.insert(0, V)
from pxa import norm
ids = [a for a in sys.argv[1:] if not a.startswith('-')] or sorted(os.path.basename(p)[:-5] for p in glob.glob(V + '/selftest/benign/*.diff'))
def one (tid):
  tmp = tempfile.mkdtemp(prefix='normchk-', dir='/dev/shm')
  try:
    subprocess.run('cd /repo && git archive HEAD | tar -x -C %s' % tmp, shell=True, check=True)
    if tid != 'CLEAN':
      r = subprocess.run(['patch', '-p1', '-s', '-f', '-d', tmp, '-i', V + '/selftest/benign/%s.diff' % tid], capture_output=True, text=True)
      if r.returncode: return tid, 'APPLY-FAILED', ''
    n_inl = 0; n_exp = 0
    # the very trees the checks analyse: a Repo over the scratch copy (normalisation with the cross-file view)
    from pxa import model
    repo_ = model.Repo(tmp, ['pox'])
    for rel, m in sorted(repo_.modules.items()):
      st = repo_.norm_stats.get(rel) or {}
      n_inl += len(st.get('inlined', ())); n_exp += st.get('expanded', 0)
      open(m.path, 'w').write(ast.unparse(m.tree) + '\n')
    r = subprocess.run('/venv/bin/python -m compileall -q pox >/dev/null 2>&1', shell=True, cwd=tmp)
    if r.returncode: return tid, 'COMPILE-FAIL', ''
    b = subprocess.run(['/venv/bin/python', V + '/tools/baseline.py', tmp], capture_output=True, text=True)
    raw = ('/root/benign_raw5/%s' if '_dg' in tid else '/root/benign_raw4/%s' if '_cg' in tid else ('/root/benign_raw3/%s' if '_bg' in tid else '/root/benign_raw/%s')) % tid.split('_')[0]
    s_rc = None
    kept = V + '/selftest/benign/sanity/%s.py' % tid[:-1]
    if tid != 'CLEAN' and os.path.exists(kept):
      os.makedirs(tmp + '/_seed', exist_ok=True); shutil.copy(kept, tmp + '/_seed/sanity.py')
      s = subprocess.run('cd %s && timeout 170 /venv/bin/python -u _seed/sanity.py' % tmp, shell=True, capture_output=True, text=True)
      s_rc = s.returncode
    elif tid != 'CLEAN' and os.path.exists(raw + '/sanity.py'):
      os.makedirs(tmp + '/_seed', exist_ok=True)
      for f in os.listdir(raw):
        if f.endswith('.py'): shutil.copy(os.path.join(raw, f), tmp + '/_seed/')
      s = subprocess.run('cd %s && timeout 170 /venv/bin/python -u _seed/sanity.py' % tmp, shell=True, capture_output=True, text=True)
      s_rc = s.returncode
    return tid, 'suite rc=%d sanity rc=%s' % (b.returncode, s_rc), 'inlined=%d expanded=%d %s' % (n_inl, n_exp, b.stdout[-120:].strip().replace('\n', ' ') if b.returncode else '')
  finally:
    shutil.rmtree(tmp, ignore_errors=True)
with ThreadPoolExecutor(6) as ex:
  for r in ex.map(one, ids): print("%-10s %-28s %s" % r)
