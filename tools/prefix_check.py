#!/venv/bin/python
"""Runs every claimed check against the ORIGINAL snapshot of noxrepo/pox (before any `fix:` commit) in a scratch
copy under /dev/shm, to show that the defects repaired by the fix commits are found by the rules (not hard-coded)."""
import subprocess, tempfile, shutil, os, sys
V = os.path.dirname(os.path.dirname(os.path.abspath(__file__)))
sys.path.insert(0, V)
from pxa.props import CLAIMED
base = subprocess.check_output(['git', '-C', '/repo', 'rev-list', '--max-parents=0', 'HEAD'], text=True).split()[0]
tmp = tempfile.mkdtemp(prefix='prefix-', dir='/dev/shm')
try:
  subprocess.check_call('git -C /repo archive %s pox ext | tar -x -C %s' % (base, tmp), shell=True)
  for p in (sys.argv[1:] or CLAIMED):
    c = subprocess.run([os.path.join(V, 'check'), p, '--repo', tmp, '--no-write'], capture_output=True, text=True)
    lines = c.stdout.splitlines()
    print("== %s exit=%d" % (p, c.returncode))
    for i, l in enumerate(lines):
      if l.startswith('VIOLATION'):
        print("   ", lines[i + 1].strip()[:110]); print("      ", lines[i + 2].strip()[:150])
      if l.startswith('ANALYSIS-ERROR'): print("   ", l[:200])
finally:
  shutil.rmtree(tmp, ignore_errors=True)
