#!/bin/bash
# usage: prop.sh C18   - everything the harness knows about one property's check
ID=$1; cd /verif
echo "== clean tree"; ./check $ID --no-write | grep -v "^  \|^$" | tail -4
echo "== seeds"; /venv/bin/python tools/seedrun.py $(ls seeded | grep "^${ID}_") | cut -c1-200
echo "== agent twins"; /venv/bin/python tools/benignrun.py $(ls selftest/benign | grep "^${ID}_.*diff" | sed 's/.diff//') | cut -c1-330
if [ "$2" != "noauto" ]; then echo "== mechanical twins"; /venv/bin/python tools/autotwin.py $ID 2>/dev/null | grep "^C\|^runs" | cut -c1-300; fi
