#!/venv/bin/python
"""Re-confirms every seeded change against /repo's current HEAD (after a fix commit a seed may stop applying or stop
breaking the property): applies the patch in a scratch worktree, runs the demo (must exit non-zero) and py_compile.
usage: reconfirm_seeds.py [ids...]"""
import sys, os, subprocess, shutil, tempfile, json
from concurrent.futures import ThreadPoolExecutor
V = os.path.dirname(os.path.dirname(os.path.abspath(__file__)))
ids = [a for a in sys.argv[1:] if not a.startswith('-')] or sorted(d for d in os.listdir(V + '/seeded') if os.path.isdir(V + '/seeded/' + d) and not d.startswith('_'))
def sh (cmd): return subprocess.run(cmd, shell=True, capture_output=True, text=True)
def one (sid):
  d = os.path.join(V, 'seeded', sid)
  wt = tempfile.mkdtemp(prefix='reconf-', dir='/dev/shm'); os.rmdir(wt)
  try:
    r = sh('git -C /repo worktree add -q --detach %s HEAD' % wt)
    if r.returncode: return sid, 'WORKTREE-FAIL', r.stderr[-100:]
    os.makedirs(wt + '/_seed')
    meta = json.load(open(d + '/meta.json'))
    which = meta.get('variant', 'a')[-1]
    shutil.copy(d + '/demo.py', wt + '/_seed/demo_%s.py' % which)
    raw = None
    for cand in ('/root/seeds_raw2/%s' % meta['property'], '/root/seeds_raw/%s' % meta['property']):
      if os.path.isdir(cand): raw = cand
    if raw:
      for f in os.listdir(raw):
        if f.endswith('.py') and not os.path.exists(wt + '/_seed/' + f): shutil.copy(os.path.join(raw, f), wt + '/_seed/')
    r0 = sh('cd %s && timeout 170 /venv/bin/python -u _seed/demo_%s.py' % (wt, which))
    r = sh('git -C %s apply %s' % (wt, d + '/patch.diff'))
    if r.returncode:
      r = sh('git -C %s apply -3 %s' % (wt, d + '/patch.diff'))
      if r.returncode: return sid, 'NO-LONGER-APPLIES', r.stderr[-120:]
    r1 = sh('cd %s && timeout 170 /venv/bin/python -u _seed/demo_%s.py' % (wt, which))
    ok = r0.returncode == 0 and r1.returncode not in (0, 124)
    return sid, 'ok' if ok else 'STALE(clean rc=%s, patched rc=%s)' % (r0.returncode, r1.returncode), ''
  finally:
    sh('git -C /repo worktree remove --force %s' % wt); shutil.rmtree(wt, ignore_errors=True)
with ThreadPoolExecutor(8) as ex:
  res = list(ex.map(one, ids))
bad = [r for r in res if r[1] != 'ok']
for r in bad: print("%-10s %s %s" % r)
print("seeds: %d, still valid: %d" % (len(res), len(res) - len(bad)))
