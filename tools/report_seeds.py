#!/venv/bin/python
"""Re-ports seeds that stopped applying after a fix commit in /repo: 3-way merge of the filed patch onto /repo HEAD in a scratch
worktree, demo must still pass on the clean tree and fail with the merged change; the merged diff replaces patch.diff (the
original is kept as patch.orig.diff).  usage: report_seeds.py <seed-id> ..."""
import sys, os, subprocess, shutil, tempfile, json
V = os.path.dirname(os.path.dirname(os.path.abspath(__file__)))
def sh (cmd): return subprocess.run(cmd, shell=True, capture_output=True, text=True)
for sid in sys.argv[1:]:
  d = os.path.join(V, 'seeded', sid); meta = json.load(open(d + '/meta.json')); which = meta.get('variant', 'a')[-1]
  wt = tempfile.mkdtemp(prefix='report-', dir='/dev/shm'); os.rmdir(wt)
  try:
    assert sh('git -C /repo worktree add -q --detach %s HEAD' % wt).returncode == 0
    os.makedirs(wt + '/_seed'); shutil.copy(d + '/demo.py', wt + '/_seed/demo_%s.py' % which)
    r0 = sh('cd %s && timeout 170 /venv/bin/python -u _seed/demo_%s.py' % (wt, which))
    r = sh('git -C %s apply -3 %s' % (wt, d + '/patch.diff'))
    conflict = sh('grep -rl "^<<<<<<< " %s/pox' % wt).stdout.strip()
    if r.returncode or conflict:
      print("%-10s MERGE-CONFLICT %s" % (sid, conflict or r.stderr[-100:])); continue
    comp = sh('cd %s && git diff --name-only HEAD | grep "\\.py$" | xargs /venv/bin/python -m py_compile' % wt)
    r1 = sh('cd %s && timeout 170 /venv/bin/python -u _seed/demo_%s.py' % (wt, which))
    ok = r0.returncode == 0 and r1.returncode not in (0, 124) and comp.returncode == 0
    if not ok:
      print("%-10s STALE clean rc=%s patched rc=%s compile=%s" % (sid, r0.returncode, r1.returncode, comp.returncode)); continue
    new = sh('git -C %s diff HEAD -- pox ext' % wt).stdout
    if not os.path.exists(d + '/patch.orig.diff'): shutil.copy(d + '/patch.diff', d + '/patch.orig.diff')
    open(d + '/patch.diff', 'w').write(new)
    meta['reported_onto'] = sh('git -C /repo rev-parse --short HEAD').stdout.strip()
    json.dump(meta, open(d + '/meta.json', 'w'), indent=1)
    print("%-10s re-ported onto %s (demo clean rc=0, patched rc=%s)" % (sid, meta['reported_onto'], r1.returncode))
  finally:
    sh('git -C /repo worktree remove --force %s' % wt); shutil.rmtree(wt, ignore_errors=True)
