#!/venv/bin/python
"""Re-ports behaviour-preserving twins that stopped applying after a `fix:` commit touched the same lines: the twin is applied at the
commit it was written against (its .json records base_commit), committed in a scratch worktree and cherry-picked onto /repo HEAD (3-way
merge).  A clean cherry-pick replaces the stored diff; a conflict is reported (the twin then needs a hand port or is retired).
usage: report_twins.py <twin id> ..."""
import sys, os, json, subprocess, tempfile, shutil
V = os.path.dirname(os.path.dirname(os.path.abspath(__file__)))
def sh (cmd, **kw): return subprocess.run(cmd, shell=True, capture_output=True, text=True, **kw)
for tid in sys.argv[1:]:
  meta = json.load(open(V + '/selftest/benign/%s.json' % tid)); base = meta.get('base_commit')
  wt = tempfile.mkdtemp(prefix='report-', dir='/dev/shm'); os.rmdir(wt)
  try:
    r = sh('git -C /repo worktree add -q --detach %s %s' % (wt, base))
    if r.returncode: print(tid, 'NO-BASE', base); continue
    r = sh('git -C %s apply %s/selftest/benign/%s.diff' % (wt, V, tid))
    if r.returncode:
      r = sh('patch -p1 -s -f -d %s -i %s/selftest/benign/%s.diff' % (wt, V, tid))
      if r.returncode: print(tid, 'DOES-NOT-APPLY-AT-BASE', base); continue
    sh('git -C %s -c user.email=x@x -c user.name=x commit -qam twin' % wt)
    twin = sh('git -C %s rev-parse HEAD' % wt).stdout.strip()
    sh('git -C %s checkout -q --detach main' % wt)
    r = sh('git -C %s -c user.email=x@x -c user.name=x cherry-pick %s' % (wt, twin))
    if r.returncode:
      print(tid, 'CONFLICT', (r.stdout + r.stderr)[-150:].replace('\n', ' ')); continue
    d = sh('git -C %s diff main HEAD -- pox' % wt).stdout
    c = sh('cd %s && /venv/bin/python -m compileall -q pox > /dev/null' % wt)
    open(V + '/selftest/benign/%s.diff' % tid, 'w').write(d)
    meta['reported_onto'] = sh('git -C /repo rev-parse --short main').stdout.strip(); json.dump(meta, open(V + '/selftest/benign/%s.json' % tid, 'w'), indent=1)
    print(tid, 'RE-PORTED', 'compile rc=%d' % c.returncode)
  finally:
    sh('git -C /repo worktree remove --force %s' % wt); shutil.rmtree(wt, ignore_errors=True)
