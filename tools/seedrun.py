#!/venv/bin/python
"""Runs the checks against every confirmed seeded change under /verif/seeded/.
For each seed: copy /repo's working tree (pox/, ext/) to a scratch dir under /dev/shm, apply patch.diff there,
run `check <PROP> --repo <scratch> --no-write` (and optionally all other claimed checks), remove the scratch dir.
usage: seedrun.py [seed-id ...] [--all-checks] [-j N]"""
import sys, os, json, subprocess, shutil, tempfile
from concurrent.futures import ThreadPoolExecutor
V = os.path.dirname(os.path.dirname(os.path.abspath(__file__)))
args = [a for a in sys.argv[1:] if not a.startswith('-')]
allchecks = '--all-checks' in sys.argv
seeds = args or sorted(d for d in os.listdir(os.path.join(V, 'seeded')) if os.path.isdir(os.path.join(V, 'seeded', d)) and not d.startswith('_'))
sys.path.insert(0, V)
from pxa.props import CLAIMED
def one (sid):
  d = os.path.join(V, 'seeded', sid)
  meta = json.load(open(os.path.join(d, 'meta.json')))
  tmp = tempfile.mkdtemp(prefix='seedrun-', dir='/dev/shm')
  try:
    for sub in ('pox', 'ext'):
      shutil.copytree(os.path.join(os.environ.get('REPO_ROOT', '/repo'), sub), os.path.join(tmp, sub), ignore=shutil.ignore_patterns('__pycache__'))
    r = subprocess.run(['git', 'apply', '--directory=' + tmp.lstrip('/'), '--unsafe-paths', os.path.join(d, 'patch.diff')], cwd='/', capture_output=True, text=True)
    if r.returncode != 0:
      r = subprocess.run(['patch', '-p1', '-s', '-d', tmp, '-i', os.path.join(d, 'patch.diff')], capture_output=True, text=True)
      if r.returncode != 0: return sid, meta['property'], 'APPLY-FAILED', r.stderr[-200:]
    props = [meta['property']]
    if allchecks: props = [p for p in CLAIMED]
    res = {}
    for p in props:
      if p not in CLAIMED: res[p] = 'no-check'; continue
      c = subprocess.run([os.path.join(V, 'check'), p, '--repo', tmp, '--no-write'], capture_output=True, text=True)
      v = [l for l in c.stdout.splitlines() if l.startswith('VIOLATION')]
      first = ''
      if v:
        i = c.stdout.splitlines().index(v[0]); first = " | ".join(x.strip() for x in c.stdout.splitlines()[i + 1:i + 4])
      res[p] = ('DETECTED' if c.returncode == 1 and v else ('ANALYSIS-ERROR' if c.returncode == 2 else 'missed'), first[:230])
    return sid, meta['property'], res, ''
  finally:
    shutil.rmtree(tmp, ignore_errors=True)
with ThreadPoolExecutor(8) as ex:
  out = list(ex.map(one, seeds))
det = 0
for sid, prop, res, err in out:
  if isinstance(res, str): print("%-8s %s %s" % (sid, res, err)); continue
  own = res.get(prop)
  if own and own != 'no-check' and own[0] == 'DETECTED': det += 1
  others = [p for p, v in res.items() if p != prop and v != 'no-check' and v[0] != 'missed']
  print("%-8s %-5s %-14s %s%s" % (sid, prop, own if isinstance(own, str) else own[0], '' if isinstance(own, str) else own[1], ("   also:" + ",".join(others)) if others else ''))
print("detected by own property's check: %d / %d" % (det, len(out)))
