#!/venv/bin/python
"""prints the normalised source of one function after applying a patch: shownorm.py <patch|twin|seed id> <module:Class.func>"""
import sys, os, ast, shutil, subprocess, tempfile
V = os.path.dirname(os.path.dirname(os.path.abspath(__file__))); sys.path.insert(0, V)
from pxa import model
m, qual = sys.argv[1], sys.argv[2]
T = tempfile.mkdtemp(prefix='shown-', dir='/dev/shm')
try:
  for sub in ('pox', 'ext'): shutil.copytree('/repo/' + sub, T + '/' + sub)
  f = m
  for cand in (V + '/selftest/mutants/%s.diff' % m, V + '/selftest/benign/%s.diff' % m, V + '/seeded/%s/patch.diff' % m):
    if os.path.exists(cand): f = cand
  if m != '-': subprocess.run(['patch', '-p1', '-s', '-d', T, '-i', f], check=True)
  repo = model.Repo(T)
  print(ast.unparse(repo.func(qual).node))
finally: shutil.rmtree(T, ignore_errors=True)
