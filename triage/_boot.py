"""Common prologue for triage scripts: makes pox importable from cwd and lets
pox.core initialise itself the way the unit tests do (the 'unittest' hack)."""
import sys, os, signal
import unittest  # noqa: pox.core._maybe_initialize looks for this
sys.path.insert(0, os.getcwd())
signal.alarm(50)
def done (ok):
  print("PASS" if ok else "FAIL")
  sys.stdout.flush(); os._exit(0 if ok else 1)
