"""Triage for C01 findings in libopenflow_01 (each line: what, PASS/FAIL).
Run: cd /repo && timeout 60 /venv/bin/python -u /verif/triage/c01_codec_defects.py"""
import sys, os; sys.path.insert(0, os.path.dirname(__file__))
from _boot import done
import pox.openflow.libopenflow_01 as of
ok = True
def case (name, f):
  global ok
  try:
    r = f(); print("PASS" if r else "FAIL", name, "" if r else "(wrong result)")
    ok = ok and bool(r)
  except Exception as e:
    print("FAIL", name, "->", type(e).__name__, e); ok = False
def rt (o):
  b = o.pack(); 
  return len(b)
case("len(ofp_queue_prop_generic)", lambda: len(of.ofp_queue_prop_generic()) == 8)
case("ofp_queue_prop_none pack/len", lambda: len(of.ofp_queue_prop_none(property=0).pack()) == 8)
case("len(ofp_vendor_stats_generic)", lambda: len(of.ofp_vendor_stats_generic(vendor=1, data=b'ab')) == 6)
case("len(ofp_generic_stats_body)", lambda: len(of.ofp_generic_stats_body(data=b'abc')) == 3)
case("ofp_generic_stats_body.pack", lambda: of.ofp_generic_stats_body(data=b'abc').pack() == b'abc')
case("ofp_table_stats.pack", lambda: len(of.ofp_table_stats(name="Default").pack()) == 64)
def stale ():
  r = of.ofp_stats_request(type=of.OFPST_PORT, body=of.ofp_port_stats_request(port_no=1))
  a = r.pack()
  r.body = of.ofp_port_stats_request(port_no=2)
  b = r.pack()
  return a != b
case("ofp_stats_request.body reassigned -> repacked", stale)
def unknown_stats_req ():
  raw = of.ofp_stats_request(type=77, body=b'xyz').pack()
  o = of.ofp_stats_request(); o.unpack(raw)
  return o.pack() == raw
case("stats request of unknown type decodes and re-encodes", unknown_stats_req)
done(ok)
