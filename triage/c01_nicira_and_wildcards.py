"""Triage C01 (Nicira + wildcard symmetry): each line PASS/FAIL.
Run: cd /repo && timeout 60 /venv/bin/python -u /verif/triage/c01_nicira_and_wildcards.py"""
import sys, os; sys.path.insert(0, os.path.dirname(__file__))
from _boot import done
import pox.openflow.libopenflow_01 as of
import pox.openflow.nicira as nx
from pox.lib.addresses import IPAddr, EthAddr
ok = True
def case (name, f):
  global ok
  try:
    r = f(); print("PASS" if r else "FAIL", name, "" if r else "(wrong result)"); ok = ok and bool(r)
  except Exception as e:
    print("FAIL", name, "->", type(e).__name__, str(e)[:90]); ok = False
def nxfm_rt ():
  m = nx.nx_flow_mod(); m.match.of_eth_type = 0x800; m.match.of_ip_proto = 6      # match_len not a multiple of 8
  m.actions.append(of.ofp_action_output(port=3))
  raw = m.pack(); o = nx.nx_flow_mod(); o.unpack(raw)
  return o.pack() == raw and len(o.actions) == 1 and o.actions[0].port == 3
case("nx_flow_mod decodes what it encoded (unaligned match)", nxfm_rt)
def nxfm_data ():
  pi = of.ofp_packet_in(in_port=2, data=b'x' * 20)      # unbuffered packet-in as data
  m = nx.nx_flow_mod(); m.data = pi
  m.actions.append(of.ofp_action_output(port=3))
  try: raw = m.pack()
  except AssertionError: return True      # the length assertion on this path is a separate, value-level matter
  return len(raw) > 0
case("nx_flow_mod.pack with unbuffered packet-in data finds its names", nxfm_data)
def pin ():
  p = nx.nxt_packet_in(); p.match.of_in_port = 1; p.data = b'abcd'; p._buffer_id = 5; p._total_len = 4
  raw = p.pack(); o = nx.nxt_packet_in(); o.unpack(raw)
  return o.pack() == raw
case("nxt_packet_in encodes and decodes", pin)
def bundle ():
  a = nx.nx_action_bundle(slaves=[1, 2, 3])       # 3 slaves -> body not a multiple of 8 -> padding needed
  raw = a.pack(); return len(raw) % 8 == 0
case("nx_action_bundle with padding encodes", bundle)
def tid ():
  m = nx.ofp_flow_mod_table_id(table_id=3, command=of.OFPFC_ADD, actions=[of.ofp_action_output(port=1)])
  raw = m.pack(); o = nx.ofp_flow_mod_table_id(); o.unpack(raw, 0)
  return o.table_id == 3 and o.command == of.OFPFC_ADD
case("ofp_flow_mod_table_id decodes", tid)
def v6 ():
  m = of.ofp_flow_mod(match=of.ofp_match(dl_type=0x86dd, nw_proto=6, tp_src=80))
  raw = m.pack(); o = of.ofp_flow_mod(); o.unpack(raw)
  print("   decoded nw_proto=%s tp_src=%s" % (o.match.nw_proto, o.match.tp_src))
  return o.match.nw_proto == 6 and o.pack() == raw
case("IPv6 match: decode(encode(m)) keeps nw_proto and re-encodes identically", v6)
def v6fix ():
  m = of.ofp_match(dl_type=0x86dd, nw_proto=6, nw_tos=4); c = m.clone(); c.fix()
  return c.nw_proto == 6 and c.nw_tos == 4
case("IPv6 match: fix() keeps the fields _wire_wildcards keeps", v6fix)
done(ok)
