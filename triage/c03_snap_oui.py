"""Triage C03/C14: LLC+SNAP with OUI 0 carrying IPv4 must match as dl_type 0x0800 (bytes vs str OUI comparison).
Run: cd /repo && timeout 60 /venv/bin/python -u /verif/triage/c03_snap_oui.py"""
import sys, os; sys.path.insert(0, os.path.dirname(__file__))
from _boot import done
import struct
import pox.openflow.libopenflow_01 as of
from pox.lib.packet import ethernet, ipv4, udp
from pox.lib.addresses import IPAddr, EthAddr
u = udp(srcport=5, dstport=6); u.payload = b'xy'
ip = ipv4(srcip=IPAddr("1.2.3.4"), dstip=IPAddr("5.6.7.8"), protocol=17); ip.payload = u
body = b'\xaa\xaa\x03' + b'\0\0\0' + struct.pack("!H", 0x0800) + ip.pack()
raw = EthAddr("00:00:00:00:00:02").raw + EthAddr("00:00:00:00:00:01").raw + struct.pack("!H", len(body)) + body
e = ethernet(raw)
m = of.ofp_match.from_packet(e, 1)
print("dl_type 0x%04x nw_src %s" % (m.dl_type, m.nw_src))
done(m.dl_type == 0x0800 and m.nw_src == IPAddr("1.2.3.4"))
