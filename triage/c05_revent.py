"""Triage C05: (a) adding a prioritised listener during delivery re-sorts the list being iterated -> a handler runs twice;
(b) removeListener(eid, eventType) raises UnboundLocalError.
Run: cd /repo && timeout 60 /venv/bin/python -u /verif/triage/c05_revent.py"""
import sys, os; sys.path.insert(0, os.path.dirname(__file__))
from _boot import done
from pox.lib.revent import EventMixin, Event
class E(Event): pass
class Src(EventMixin):
  _eventMixin_events = set([E])
ok = True
s = Src(); calls = []
def late (e): calls.append('late')
def h1 (e):
  calls.append('h1')
  if calls.count('h1') == 1: s.addListener(E, late, priority=100)
def h2 (e): calls.append('h2')
s.addListener(E, h1); s.addListener(E, h2)
s.raiseEvent(E)
r = calls.count('h1') == 1 and calls.count('h2') == 1
print("PASS" if r else "FAIL", "(a) each pre-subscribed handler exactly once:", calls); ok &= r
s = Src()
t, eid = s.addListener(E, h2)
try:
  r = s.removeListener(eid, E) is True and s._eventMixin_get_listener_count() == 0
  print("PASS" if r else "FAIL", "(b) removeListener(eid, type)"); ok &= r
except Exception as ex:
  print("FAIL (b) removeListener(eid, type) ->", type(ex).__name__, ex); ok = False
done(ok)
