"""C08 triage: a waiter that names no component at all is ready at once - call_when_ready(cb) (the default `components=[]`), with
[] or () - the callback runs exactly once, immediately.  On the unfixed tree the empty sequence is wrapped as [[]] and
hasComponent([]) raises TypeError (unhashable) out of call_when_ready.
Run: timeout 60 /venv/bin/python triage/c08_empty_components.py [repo]"""
import sys, os, signal
signal.alarm(50)
sys.path.insert(0, sys.argv[1] if len(sys.argv) > 1 else '/repo')
import pox.core
core = pox.core.initialize(threaded_selecthub=False, handle_signals=False)
bad = 0
for label, kw in (('default', {}), ('[]', {'components': []}), ('()', {'components': ()}), ('set()', {'components': set()})):
  calls = []
  try:
    core.call_when_ready(lambda: calls.append(1), name='t', **kw); esc = None
  except BaseException as e: esc = e
  ok = esc is None and calls == [1]
  print("%-8s escaped=%r calls=%r -> %s" % (label, esc, calls, 'ok' if ok else 'FAIL')); bad += not ok
print('FAIL' if bad else 'PASS'); os._exit(1 if bad else 0)
