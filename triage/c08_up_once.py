"""Triage C08: UpEvent must be raised exactly once, after GoingUpEvent, when every deferral has been released.
Run: cd /repo && timeout 60 /venv/bin/python -u /verif/triage/c08_up_once.py"""
import sys, os; sys.path.insert(0, os.path.dirname(__file__))
from _boot import done
import pox.core as pc
from pox.core import POXCore, GoingUpEvent, UpEvent
ok = True
def fresh ():
  c = POXCore(threaded_selecthub=False, handle_signals=False)
  c._add_signal_handlers = lambda: None
  ev = []
  c.addListener(GoingUpEvent, lambda e: ev.append('going_up'), priority=1000)
  c.addListener(UpEvent, lambda e: ev.append('up'))
  return c, ev
# 1: deferral taken and released inside a GoingUp handler
c, ev = fresh()
c.addListener(GoingUpEvent, lambda e: c._get_go_up_deferral()())
c.goUp()
r = ev == ['going_up', 'up']; print("PASS" if r else "FAIL", "deferral released inside GoingUp handler:", ev); ok &= r
# 2: deferral taken and released before goUp
c, ev = fresh()
d = c._get_go_up_deferral(); d()
c.goUp()
r = ev == ['going_up', 'up']; print("PASS" if r else "FAIL", "deferral released before goUp:", ev); ok &= r
# 3: deferral outstanding across goUp
c, ev = fresh()
d = c._get_go_up_deferral()
c.goUp()
r1 = ev == ['going_up']
d()
r = r1 and ev == ['going_up', 'up']; print("PASS" if r else "FAIL", "deferral released after goUp:", ev); ok &= r
# 4: no deferral
c, ev = fresh(); c.goUp()
r = ev == ['going_up', 'up']; print("PASS" if r else "FAIL", "no deferral:", ev); ok &= r
done(ok)
