"""Triage C09: a datapath reconnects (B) before its stale connection (A) closes; closing A must not unregister B.
Run: cd /repo && timeout 60 /venv/bin/python -u /verif/triage/c09_registry.py"""
import sys, os; sys.path.insert(0, os.path.dirname(__file__))
from _boot import done
from pox.openflow import OpenFlowNexus
from pox.openflow.of_01 import Connection
nexus = OpenFlowNexus.__new__(OpenFlowNexus); nexus._connections = {}
nexus.raiseEventNoErrors = lambda *a, **k: None
class Sock(object):
  def shutdown (self, *a): pass
  def close (self): pass
def mk ():
  c = Connection.__new__(Connection)
  c.ofnexus = nexus; c.dpid = 7; c.disconnected = False; c.disconnection_raised = False
  c.sock = Sock(); c.ID = 1; c.raiseEventNoErrors = lambda *a, **k: None
  c.info = c.msg = lambda *a: None
  return c
A, B = mk(), mk()
nexus._connect(A); nexus._connect(B)
A.disconnect()
r = nexus.getConnection(7) is B
print("registry after stale A closes:", nexus.getConnection(7), "(expect B)")
B.disconnect()
r = r and nexus.getConnection(7) is None
done(r)
