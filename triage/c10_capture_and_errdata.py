"""Triage C10: (a) OFCaptureSocket._recv_out/_send_out spin on a length field of 0 (trace capture enabled);
(b) OFConnection._error_handler puts a str into err.data, so the HELLO_FAILED reply cannot be packed.
Run: cd /repo && timeout 90 /venv/bin/python -u /verif/triage/c10_capture_and_errdata.py"""
import sys, os, subprocess; sys.path.insert(0, os.path.dirname(__file__))
from _boot import done
CASES = []
def case (name, f): CASES.append((name, f))
def cap (meth):
  def f ():
    from pox.openflow.of_01 import OFCaptureSocket
    s = OFCaptureSocket.__new__(OFCaptureSocket)
    s._rbuf = bytes(); s._sbuf = bytes(); s._enabled = True
    class W(object):
      def write (self, outgoing, buf): pass
    s._writer = W()
    data = bytes([1, 0, 0, 0, 0, 0, 0, 1])        # HELLO header claiming length 0
    if meth == '_recv_out': s._recv_out(data)
    else: s._send_out(data, len(data))
    return True
  return f
case("OFCaptureSocket._recv_out with a zero length field terminates", cap('_recv_out'))
case("OFCaptureSocket._send_out with a zero length field terminates", cap('_send_out'))
def errdata ():
  from pox.datapaths.switch import OFConnection
  from pox.lib.ioworker import IOWorker
  import pox.openflow.libopenflow_01 as of
  class Sock(object):
    def getpeername (self): return ("1.2.3.4", 5)
  class W(IOWorker):
    def __init__ (self): IOWorker.__init__(self); self.socket = Sock()
    def shutdown (self, *a, **k): pass
  w = W(); c = OFConnection(w)
  w.receive_buf = bytes([9, 0, 0, 8, 0, 0, 0, 7])    # HELLO with unsupported version 9 on a fresh connection
  c.read(w)
  o = of.ofp_error(); 
  if not w.send_buf: print("   no error reply queued"); return False
  o.unpack(w.send_buf)
  print("   reply:", o.type, o.code, o.xid, o.data)
  return o.type == of.OFPET_HELLO_FAILED and o.xid == 7
case("bad version on a fresh switch connection is answered with HELLO_FAILED", errdata)
if len(sys.argv) > 1:
  name, f = CASES[int(sys.argv[1])]
  try: r = f()
  except Exception as e: print("   ->", type(e).__name__, e); r = False
  sys.stdout.flush(); os._exit(0 if r else 1)
ok = True
for i, (name, f) in enumerate(CASES):
  try:
    p = subprocess.run([sys.executable, '-u', __file__, str(i)], timeout=6, capture_output=True, text=True)
    r = p.returncode == 0; extra = "".join(l for l in p.stdout.splitlines(True) if l.startswith("   "))
  except subprocess.TimeoutExpired:
    r = False; extra = "   -> does not terminate (6 s)\n"
  print("PASS" if r else "FAIL", name); sys.stdout.write(extra); ok &= r
done(ok)
