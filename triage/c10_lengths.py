"""Triage C10: wire length < 8 in both framing loops; exception in a worker's receive path ends the whole IO loop.
Run: cd /repo && timeout 90 /venv/bin/python -u /verif/triage/c10_lengths.py"""
import sys, os, signal; sys.path.insert(0, os.path.dirname(__file__))
from _boot import done
signal.alarm(0)
import pox.openflow.libopenflow_01 as of
from pox.openflow.of_01 import Connection
from pox.datapaths.switch import OFConnection
from pox.lib.ioworker import IOWorker
import subprocess
ok = True
CASES = []
def case (name, f): CASES.append((name, f))
class FakeSock(object):
  def __init__ (self, data): self.data = data
  def recv (self, n): d, self.data = self.data[:n], self.data[n:]; return d
  def getpeername (self): return ("1.2.3.4", 5)
  def fileno (self): return 9
  def setblocking(self, x): pass
  def shutdown (self, *a): pass
  def close (self): pass
def ctl (length):
  def f ():
    c = Connection.__new__(Connection)
    c.buf = b''; c.sock = FakeSock(bytes([1, 0, length >> 8, length & 255, 0, 0, 0, 1]) + b'\0' * 8)
    from pox.openflow.util import make_type_to_unpacker_table; c.unpackers = make_type_to_unpacker_table(); c.handlers = [lambda *a: None] * 30
    c.ID = 1; c.dpid = None
    try: r = c.read()
    except (AssertionError, of.UnderrunError): return True    # escapes to OpenFlow_01_Task.run, which closes this connection
    return r is False or r is True
  return f
for L in (0, 3, 7): case("controller Connection.read, HELLO with length %d terminates" % L, ctl(L))
class W(IOWorker):
  def __init__ (self):
    IOWorker.__init__(self); self.socket = FakeSock(b''); self.shut = False
  def shutdown (self, *a, **k): self.shut = True
def swc (length):
  def f ():
    w = W(); c = OFConnection(w); c.on_message_received = lambda *a: None
    try:
      w._push_receive_data(bytes([1, 0, length >> 8, length & 255, 0, 0, 0, 1]) + b'\0' * 8)
    except Exception as e:
      print("   (escaped read:", type(e).__name__, ")")
      return False
    return True
  return f
for L in (0, 3, 7): case("switch OFConnection.read, HELLO with length %d terminates without escaping" % L, swc(L))
def loop_contain ():
  # exception from a worker's rx handler must not propagate out of _do_recv (RecocoIOLoop.run would `break`)
  w = W(); w.socket = FakeSock(b'abc')
  def bad (worker): raise ValueError("boom")
  w.rx_handler = bad
  class Loop: _BUF_SIZE = 100; _workers = set()
  try: w._do_recv(Loop)
  except ValueError: return False
  return w.closed
case("exception in a worker's receive path is contained to that worker", loop_contain)
if len(sys.argv) > 1:
  name, f = CASES[int(sys.argv[1])]
  try: r = f()
  except Exception as e: print("   ->", type(e).__name__, e); r = False
  sys.stdout.flush(); os._exit(0 if r else 1)
for i, (name, f) in enumerate(CASES):
  try:
    p = subprocess.run([sys.executable, '-u', __file__, str(i)], timeout=5, capture_output=True, text=True)
    r = p.returncode == 0; extra = "".join(l for l in p.stdout.splitlines(True) if l.startswith("   "))
  except subprocess.TimeoutExpired:
    r = False; extra = "   -> does not terminate (5 s)\n"
  print("PASS" if r else "FAIL", name); sys.stdout.write(extra); ok &= r
done(ok)
