"""C10: a VENDOR message whose length field says 8..11 (shorter than the vendor id it must carry) followed by another message.
Nothing may be delivered that is built from bytes of two messages: the short vendor message has no vendor id of its own.
Run with cwd=/repo, PYTHONPATH=/repo."""
import sys, os, struct
sys.path.insert(0, os.path.dirname(os.path.abspath(__file__)))
from _boot import done
import pox.openflow.libopenflow_01 as of
from pox.openflow.util import make_type_to_unpacker_table

unpackers = make_type_to_unpacker_table()
ok = True
for declared in (8, 9, 10, 11):
  short = struct.pack("!BBHL", of.OFP_VERSION, of.OFPT_VENDOR, declared, 0x11) + b'\xee' * (declared - 8)
  follow = of.ofp_echo_request(xid=0x22, body=b'ABCDEFGH').pack()
  buf = short + follow
  try:
    new_offset, msg = unpackers[of.OFPT_VENDOR](buf, 0)
  except Exception as e:
    print("declared length %d: rejected with %s" % (declared, type(e).__name__)); continue
  own = buf[8:declared]
  print("declared length %d: delivered vendor=0x%08x data=%r, consumed %d" % (declared, msg.vendor, msg.data, new_offset))
  if new_offset == declared:
    ok = False
    print("MISMATCH: a vendor message of %d bytes was delivered with a vendor id taken from the %d byte(s) of the following message" % (declared, 12 - declared))
done(ok)
