"""Triage: _action_enqueue reads a nonexistent attribute (C12); bad flow-mod command path raises NameError (C04/C13).
Run: cd /repo && timeout 60 /venv/bin/python -u /verif/triage/c12_c04_switch.py"""
import sys, os; sys.path.insert(0, os.path.dirname(__file__))
from _boot import done
from pox.datapaths.switch import SoftwareSwitchBase
import pox.openflow.libopenflow_01 as of
from pox.lib.packet import ethernet
sent = []; out = []
class S(SoftwareSwitchBase):
  def send(self, msg, connection=None): sent.append(msg)
  def _output_packet_physical(self, packet, port_no): out.append(port_no)
s = S(dpid=1)
ok = True
try:
  from pox.lib.addresses import EthAddr; e = ethernet(src=EthAddr("00:00:00:00:00:01"), dst=EthAddr("00:00:00:00:00:02"), type=0x9999); e.payload = b'hi'
  s._process_actions_for_packet([of.ofp_action_enqueue(port=2, queue_id=0)], e, 1)
  r = out == [2]; print("PASS" if r else "FAIL", "enqueue outputs on port 2:", out); ok &= r
except Exception as ex:
  print("FAIL enqueue ->", type(ex).__name__, ex); ok = False
try:
  fm = of.ofp_flow_mod(command=9, xid=55)
  s._rx_flow_mod(fm, None)
  r = len(sent) and isinstance(sent[-1], of.ofp_error) and sent[-1].type == of.OFPET_FLOW_MOD_FAILED and sent[-1].code == of.OFPFMFC_BAD_COMMAND and sent[-1].xid == 55
  print("PASS" if r else "FAIL", "bad command answered with FLOW_MOD_FAILED/BAD_COMMAND"); ok &= bool(r)
except Exception as ex:
  print("FAIL bad command ->", type(ex).__name__, ex); ok = False
done(ok)
