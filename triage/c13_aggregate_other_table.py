"""C13 triage: aggregate-stats request for a table other than 0/0xff.  The switch's handler returns [] so the
stats reply has an empty body; the specification requires one ofp_aggregate_stats_reply (24 bytes)."""
import sys, os
sys.path.insert(0, os.path.dirname(os.path.abspath(__file__))); import _boot
import pox.openflow.libopenflow_01 as of
from pox.datapaths.switch import SoftwareSwitch
sent = []
class Con(object):
  def set_message_handler (self, h): self.h = h
  def send (self, m): sent.append(m)
sw = SoftwareSwitch(dpid=1, name="s", ports=1)
c = Con(); sw.set_connection(c)
req = of.ofp_stats_request(type=of.OFPST_AGGREGATE, body=of.ofp_aggregate_stats_request(table_id=3))
raw = req.pack()
r2 = of.ofp_stats_request(); r2.unpack(raw)
sw.rx_message(c, r2)
ok = True
for m in sent:
  b = m.pack() if not isinstance(m, bytes) else m
  print("reply:", type(m).__name__, "wire length", len(b), "(header 12 + body %d)" % (len(b) - 12))
  if len(b) - 12 != 24: ok = False; print("  -> body is not one ofp_aggregate_stats_reply (24 bytes)")
  try:
    rr = of.ofp_stats_reply(); rr.unpack(b); print("  controller-side decode: body =", rr.body)
    if not isinstance(rr.body, of.ofp_aggregate_stats): ok = False
  except Exception as e:
    print("  controller-side decode raises", type(e).__name__, e); ok = False
_boot.done(ok and len(sent) == 1)
