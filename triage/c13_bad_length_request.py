"""C13 triage: a fixed-size request whose header overstates/understates its length (an *invalid request*) must be answered with
OFPET_BAD_REQUEST/OFPBRC_BAD_LEN (the switch has that path: OFConnection.ERR_BAD_LENGTH) - not with a dropped connection.
Run: timeout 60 /venv/bin/python triage/c13_bad_length_request.py [repo]"""
import sys, os, struct, signal
signal.alarm(50)
sys.path.insert(0, sys.argv[1] if len(sys.argv) > 1 else '/repo')
import pox.core
pox.core.initialize(threaded_selecthub=False, handle_signals=False)
import pox.openflow.libopenflow_01 as of
from pox.datapaths.switch import SoftwareSwitch, OFConnection
from pox.lib.ioworker import IOWorker

class Sock(object):
  def getpeername (self): return ('1.2.3.4', 6633)
class W(IOWorker):
  def __init__ (self):
    IOWorker.__init__(self); self.socket = Sock(); self.sent = b''; self.shut = False
  def send (self, data): self.sent += data
  def shutdown (self, *a, **k): self.shut = True
  def close (self): self.shut = True

def run (raw):
  w = W(); c = OFConnection(w)
  sw = SoftwareSwitch(dpid=1, name='s', ports=2)
  sw.set_connection(c)
  w.sent = b''
  try:
    w._push_receive_data(raw + of.ofp_echo_request(xid=77).pack())
    esc = None
  except BaseException as e:
    esc = e
  msgs = []; off = 0
  while off < len(w.sent):
    t = w.sent[off+1]; l = struct.unpack_from('!H', w.sent, off+2)[0]; xid = struct.unpack_from('!L', w.sent, off+4)[0]
    msgs.append((t, xid, w.sent[off:off+l])); off += l
  return esc, msgs, w.shut

bad = 0
cases = [
 ('get_config_request len 12', of.ofp_get_config_request(xid=5).pack()[:2] + struct.pack('!HL', 12, 5) + b'\0'*4),
 ('barrier_request len 16', of.ofp_barrier_request(xid=6).pack()[:2] + struct.pack('!HL', 16, 6) + b'\0'*8),
 ('features_request len 9', of.ofp_features_request(xid=7).pack()[:2] + struct.pack('!HL', 9, 7) + b'\0'),
 ('set_config len 16', of.ofp_set_config(xid=8).pack()[:2] + struct.pack('!HL', 16, 8) + b'\0'*8),
]
for name, raw in cases:
  esc, msgs, shut = run(raw)
  xid = struct.unpack_from('!L', raw, 4)[0]
  errs = [m for m in msgs if m[0] == of.OFPT_ERROR and m[1] == xid]
  echo = [m for m in msgs if m[0] == of.OFPT_ECHO_REPLY and m[1] == 77]
  ok = esc is None and len(errs) == 1 and struct.unpack_from('!HH', errs[0][2], 8) == (of.OFPET_BAD_REQUEST, of.OFPBRC_BAD_LEN) and len(echo) == 1 and not shut
  print("%-28s escaped=%r errors=%d echo-answered=%d closed=%s -> %s" % (name, esc, len(errs), len(echo), shut, 'ok' if ok else 'FAIL'))
  bad += not ok
print('FAIL' if bad else 'PASS'); os._exit(1 if bad else 0)
