"""Triage C13 (thorough): NXSoftwareSwitch.send(message) cannot accept send_error's connection= keyword.
Run: cd /repo && timeout 60 /venv/bin/python -u /verif/triage/c13_nx_send.py"""
import sys, os; sys.path.insert(0, os.path.dirname(__file__))
from _boot import done
from pox.datapaths.nx_switch import NXSoftwareSwitch
import pox.openflow.libopenflow_01 as of
got = []
class C(object):
  ID = 1
  def send (self, m): got.append(m)
s = NXSoftwareSwitch(dpid=1)
c = C(); s.connections = [c]; s.role_by_conn = {1: 0}; s.connection_in_action = c
try:
  s._rx_vendor(of.ofp_vendor_generic(xid=9, vendor=1), connection=c)
  r = len(got) == 1 and isinstance(got[0], of.ofp_error) and got[0].xid == 9
except Exception as e:
  print("->", type(e).__name__, e); r = False
done(r)
