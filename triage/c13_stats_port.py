"""Triage C13: port stats request for an unknown port must be answered (one reply or one error), not raise KeyError.
Run: cd /repo && timeout 60 /venv/bin/python -u /verif/triage/c13_stats_port.py"""
import sys, os; sys.path.insert(0, os.path.dirname(__file__))
from _boot import done
from pox.datapaths.switch import SoftwareSwitchBase
import pox.openflow.libopenflow_01 as of
sent = []
class S(SoftwareSwitchBase):
  def send(self, msg, connection=None): sent.append(msg)
s = S(dpid=1); del sent[:]
req = of.ofp_stats_request(xid=77, type=of.OFPST_PORT, body=of.ofp_port_stats_request(port_no=99))
try:
  s._rx_stats_request(req, None)
  r = len(sent) == 1 and sent[0].xid == 77
  print("answers:", [type(m).__name__ for m in sent])
  if r: sent[0].pack()
except Exception as e:
  print("->", type(e).__name__, e); r = False
done(r)
