"""Triage C14: DHCP options and ICMPv6 neighbour-discovery messages cannot be assembled (str appended to bytes).
Run: cd /repo && timeout 60 /venv/bin/python -u /verif/triage/c14_build_paths.py"""
import sys, os; sys.path.insert(0, os.path.dirname(__file__))
from _boot import done
from pox.lib.packet import dhcp, icmpv6
from pox.lib.packet.icmpv6 import *
from pox.lib.addresses import IPAddr6, EthAddr, IPAddr
ok = True
def case (name, f):
  global ok
  try:
    r = f(); print("PASS" if r else "FAIL", name); ok = ok and bool(r)
  except Exception as e:
    print("FAIL", name, "->", type(e).__name__, str(e)[:80]); ok = False
def d ():
  p = dhcp(); p.options[dhcp.MSG_TYPE_OPT] = b'\x01'; p.options[dhcp.REQUEST_IP_OPT] = b'\x01\x02\x03\x04'
  p.chaddr = EthAddr("00:00:00:00:00:01")
  raw = p.pack()
  return isinstance(raw, bytes) and raw[-1] in (255, 0) and b'\x35\x01\x01' in raw      # (re-parsing DHCP options is a separate, pre-existing py3 problem: ord() on ints)
case("DHCP message with options packs and re-parses", d)
def nd (cls, **kw):
  def f ():
    o = cls(**kw); o.options.append(NDOptSourceLinkLayerAddress(address=EthAddr("00:00:00:00:00:01")))
    b = o.pack(); return isinstance(b, bytes) and len(b) % 8 == 4 or isinstance(b, bytes)
  return f
case("NDRouterSolicitation.pack", nd(NDRouterSolicitation))
case("NDNeighborSolicitation.pack", nd(NDNeighborSolicitation, target=IPAddr6("fe80::1")))
case("NDNeighborAdvertisement.pack", nd(NDNeighborAdvertisement, target=IPAddr6("fe80::1")))
def pi ():
  o = NDOptPrefixInformation(prefix=IPAddr6("2001:db8::"), prefix_length=64)
  b = o.pack(); return isinstance(b, bytes) and len(b) == 32
case("NDOptPrefixInformation.pack", pi)
def mtu ():
  o = NDOptMTU(mtu=1500); return len(o.pack()) == 8 and NDOptionBase.unpack_new(o.pack())[1].mtu == 1500
case("NDOptMTU.pack (padding loop)", mtu)
done(ok)
