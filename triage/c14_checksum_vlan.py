"""Triage C14: checksum() of odd-length data raises TypeError; vlan parse/hdr disagree on CFI.
Run: cd /repo && timeout 60 /venv/bin/python -u /verif/triage/c14_checksum_vlan.py"""
import sys, os; sys.path.insert(0, os.path.dirname(__file__))
from _boot import done
from pox.lib.packet.packet_utils import checksum
from pox.lib.packet.vlan import vlan
import struct
ok = True
def rfc1071 (b):
  if len(b) % 2: b += b'\0'
  s = sum(struct.unpack("!%dH" % (len(b) // 2), b))
  while s >> 16: s = (s & 0xffff) + (s >> 16)
  return ~s & 0xffff
try:
  r = checksum(b'\x01\x02\x03') == rfc1071(b'\x01\x02\x03')
  print("PASS" if r else "FAIL", "checksum of odd-length data"); ok &= r
except Exception as e:
  print("FAIL checksum of odd-length data ->", type(e).__name__, e); ok = False
raw = struct.pack("!HH", (5 << 13) | 0x1000 | 42, 0x0800) + b'payload'
v = vlan(raw=raw)
try:
  out = v.hdr(b'')
  r = out == raw[:4]
  print("PASS" if r else "FAIL", "vlan with CFI set re-serialises to the same header", out.hex(), raw[:4].hex()); ok &= r
except Exception as e:
  print("FAIL vlan CFI ->", type(e).__name__, e); ok = False
done(ok)
