"""C15: ICMPv6 messages of every type the parser dispatches on, with *valid* checksums (an attacker computes them) and bodies of
every length 0..72 (patterned and random bytes, plus crafted ND options): ethernet(raw) must not raise, and the parse result -
every layer of it - can be printed and re-serialised.  Prints one line per distinct failure.  cwd=/repo, PYTHONPATH=/repo."""
import sys, os, struct, random
sys.path.insert(0, os.path.dirname(os.path.abspath(__file__)))
from _boot import done
from pox.lib.packet.ethernet import ethernet
from pox.lib.addresses import IPAddr6
import logging; logging.disable(logging.CRITICAL)
src, dst = IPAddr6('fe80::1').raw, IPAddr6('fe80::2').raw
def frame (typ, body, code=0):
  icmp = struct.pack('!BBH', typ, code, 0) + body
  ph = src + dst + struct.pack('!IHBB', len(icmp), 0, 0, 58) + icmp
  if len(ph) % 2: ph += b'\0'
  t = sum(struct.unpack('!%dH' % (len(ph) // 2), ph))
  while t >> 16: t = (t & 0xffff) + (t >> 16)
  icmp = icmp[:2] + struct.pack('!H', ~t & 0xffff) + icmp[4:]
  ip6 = struct.pack('!IHBB', 6 << 28, len(icmp), 58, 64) + src + dst
  return b'\x00\x00\x00\x00\x00\x02' + b'\x00\x00\x00\x00\x00\x01' + b'\x86\xdd' + ip6 + icmp
seen = {}
def note (stage, typ, n, e):
  k = (stage, typ, type(e).__name__, str(e)[:70])
  if k not in seen: seen[k] = n; print("type %3d body %2d bytes: %s raised %s: %s" % (typ, n, stage, type(e).__name__, str(e)[:90]))
rnd = random.Random(7)
bodies = []
for n in range(0, 73):
  bodies.append(bytes(range(n))); bodies.append(bytes(rnd.randrange(256) for _ in range(n))); bodies.append(b'\0' * n)
# crafted ND options behind a neighbour solicitation / advertisement / router advertisement prefix
for pre in (20, 12, 4):
  for opt in (b'\x01\x00' + b'\0' * 6, b'\x01\x01' + b'\xaa' * 6, b'\x01\x02' + b'\xaa' * 14, b'\x05\x01' + b'\0' * 6, b'\x05\x02' + b'\0' * 14, b'\x03\x04' + b'\0' * 30, b'\x03\x01' + b'\0' * 6,
              b'\x63\x01' + b'\0' * 6, b'\x01\x01' + b'\xaa' * 5, b'\x01\x01' + b'\xaa' * 9, b'\x01\xff' + b'\0' * 6):
    bodies.append(b'\0' * pre + opt)
for typ in (1, 2, 3, 4, 128, 129, 133, 134, 135, 136, 137, 200):
  for body in bodies:
    f = frame(typ, body)
    try: p = ethernet(f)
    except Exception as e: note("parse", typ, len(body), e); continue
    x = p
    while x is not None and not isinstance(x, bytes):
      try: str(x)
      except Exception as e: note("str(%s)" % type(x).__name__, typ, len(body), e)
      x = getattr(x, 'next', None)
    try: p.pack()
    except Exception as e: note("pack", typ, len(body), e)
done(not seen)
