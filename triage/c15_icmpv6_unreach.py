"""C15: an ICMPv6 destination-unreachable message inside an Ethernet frame: parsing must not raise, and the parse result can be
printed and re-serialised.  Run with cwd=/repo, PYTHONPATH=/repo."""
import sys, os, struct
sys.path.insert(0, os.path.dirname(os.path.abspath(__file__)))
from _boot import done
from pox.lib.packet.ethernet import ethernet
from pox.lib.addresses import IPAddr6
ok = True
def frame (inner_len):
  inner = bytes(range(inner_len))                       # "IP header + 8 bytes of the original datagram"
  icmp = struct.pack('!BBHI', TYPE, 0, 0, 0) + inner    # type 1 = destination unreachable
  src, dst = IPAddr6('fe80::1').raw, IPAddr6('fe80::2').raw
  ph = src + dst + struct.pack('!IHBB', len(icmp), 0, 0, 58) + icmp
  if len(ph) % 2: ph += b'\0'
  t = sum(struct.unpack('!%dH' % (len(ph) // 2), ph))
  while t >> 16: t = (t & 0xffff) + (t >> 16)
  icmp = icmp[:2] + struct.pack('!H', ~t & 0xffff) + icmp[4:]
  ip6 = struct.pack('!IHBB', 6 << 28, len(icmp), 58, 64) + src + dst
  return b'\x00\x00\x00\x00\x00\x02' + b'\x00\x00\x00\x00\x00\x01' + b'\x86\xdd' + ip6 + icmp
for TYPE, n in [(t_, n_) for t_ in (1, 2, 3) for n_ in (0, 3, 8, 47, 48, 60, 100)]:
  f = frame(n)
  for what, fn in (("parse", lambda: ethernet(f)), ):
    try: p = fn()
    except Exception as e:
      ok = False; print("type %d inner %d: parse raised %s: %s" % (TYPE, n, type(e).__name__, e)); continue
    try: s = str(p)
    except Exception as e:
      ok = False; print("type %d inner %d: str() raised %s: %s" % (TYPE, n, type(e).__name__, e))
    try: b = p.pack()
    except Exception as e:
      ok = False; print("type %d inner %d: pack() raised %s: %s" % (TYPE, n, type(e).__name__, e))
    else:
      if b != f: print("type %d inner %d: note: re-serialised bytes differ (%d vs %d)" % (TYPE, n, len(b), len(f)))
done(ok)
