"""C15 triage survey: hand-built frames of protocols the escape analysis may not reach; every truncation of each
frame is parsed, printed, dumped and re-packed.  Prints one line per distinct exception site."""
import sys, os, struct, traceback
sys.path.insert(0, os.path.dirname(os.path.abspath(__file__))); import _boot
from pox.lib.packet.ethernet import ethernet
def eth (etype, payload, dst=b"\x02\x00\x00\x00\x00\x01", src=b"\x02\x00\x00\x00\x00\x02"):
  return dst + src + struct.pack("!H", etype) + payload
def ip4 (proto, payload, opts=b""):
  ihl = 5 + len(opts) // 4
  h = struct.pack("!BBHHHBBH4s4s", 0x40 | ihl, 0, 20 + len(opts) + len(payload), 1, 0, 64, proto, 0, b"\x0a\x00\x00\x01", b"\x0a\x00\x00\x02") + opts
  return h + payload
def ip6 (nh, payload):
  return struct.pack("!IHBB16s16s", 0x60000000, len(payload), nh, 64, b"\x20\x01" + b"\x00" * 13 + b"\x01", b"\x20\x01" + b"\x00" * 13 + b"\x02") + payload
def udp (sp, dp, payload): return struct.pack("!HHHH", sp, dp, 8 + len(payload), 0) + payload
frames = {}
# DHCP discover with options
dh = struct.pack("!BBBBIHH4s4s4s4s16s64s128s", 1, 1, 6, 0, 0x1234, 0, 0, b"\0"*4, b"\0"*4, b"\0"*4, b"\0"*4, b"\x02\0\0\0\0\x02" + b"\0"*10, b"\0"*64, b"\0"*128) + b"\x63\x82\x53\x63" + bytes([53, 1, 1, 55, 3, 1, 3, 6, 12, 4]) + b"host" + bytes([255])
frames['dhcp+options'] = eth(0x0800, ip4(17, udp(68, 67, dh)))
# IPv6 hop-by-hop (nh=0) then UDP; routing header (43); dest opts (60)
hbh = bytes([17, 0, 1, 4, 0, 0, 0, 0])
frames['ipv6 hop-by-hop'] = eth(0x86dd, ip6(0, hbh + udp(1, 2, b"hello")))
frames['ipv6 routing'] = eth(0x86dd, ip6(43, bytes([17, 0, 0, 0, 0, 0, 0, 0]) + udp(1, 2, b"hello")))
frames['ipv6 dest-opts'] = eth(0x86dd, ip6(60, bytes([17, 0, 1, 4, 0, 0, 0, 0]) + udp(1, 2, b"hello")))
# IGMPv3 membership report with one group record
rec = struct.pack("!BBH4s", 1, 0, 1, b"\xe0\x00\x00\x05") + b"\x0a\x00\x00\x09"
frames['igmpv3 report'] = eth(0x0800, ip4(2, struct.pack("!BBHHH", 0x22, 0, 0, 0, 1) + rec))
frames['igmpv3 query'] = eth(0x0800, ip4(2, struct.pack("!BBH4sBBH", 0x11, 10, 0, b"\xe0\x00\x00\x05", 2, 125, 1) + b"\x0a\x00\x00\x09"))
# GRE with key, carrying IPv4/UDP
frames['gre'] = eth(0x0800, ip4(47, struct.pack("!HHI", 0x2000, 0x0800, 77) + ip4(17, udp(1, 2, b"x"))))
# LLC/SNAP, EAP over EAPOL, LLDP
frames['llc snap'] = eth(0x0020, bytes([0xaa, 0xaa, 0x03, 0, 0, 0]) + struct.pack("!H", 0x0800) + ip4(17, udp(1, 2, b"x")))
frames['llc plain'] = eth(0x0010, bytes([0x42, 0x42, 0x03]) + b"\0" * 13)
frames['eapol eap'] = eth(0x888e, struct.pack("!BBH", 1, 0, 9) + struct.pack("!BBHB", 1, 7, 9, 1) + b"user")
def tlv (t, v): return struct.pack("!H", (t << 9) | len(v)) + v
frames['lldp'] = eth(0x88cc, tlv(1, b"\x04\x02\0\0\0\0\x01") + tlv(2, b"\x02" + b"1") + tlv(3, b"\x00\x78") + tlv(5, b"name") + tlv(6, b"descr") + tlv(0, b""), dst=b"\x01\x80\xc2\x00\x00\x0e")
# more protocols (for the corruption sweep)
def tcp (sp, dp, opts=b"", payload=b""):
  off = 5 + len(opts) // 4
  return struct.pack("!HHIIBBHHH", sp, dp, 1, 2, off << 4, 0x18, 1000, 0, 0) + opts + payload
frames['tcp+options'] = eth(0x0800, ip4(6, tcp(1, 2, bytes([2, 4, 5, 0xb4, 1, 3, 3, 7, 4, 2, 8, 10, 0, 0, 0, 1, 0, 0, 0, 2, 0, 0, 0, 0]), b"data")))
frames['tcp unknown opt'] = eth(0x0800, ip4(6, tcp(1, 2, bytes([99, 6, 1, 2, 3, 4, 0, 0]), b"")))
frames['ipv4+options'] = eth(0x0800, ip4(17, udp(1, 2, b"x"), opts=bytes([7, 7, 4, 0, 0, 0, 0, 0])))
frames['icmp echo'] = eth(0x0800, ip4(1, struct.pack("!BBHHH", 8, 0, 0, 1, 1) + b"ping"))
frames['icmp unreach'] = eth(0x0800, ip4(1, struct.pack("!BBHHH", 3, 1, 0, 0, 0) + ip4(17, udp(1, 2, b""))))
frames['arp'] = eth(0x0806, struct.pack("!HHBBH6s4s6s4s", 1, 0x0800, 6, 4, 1, b"\x02\0\0\0\0\x02", b"\x0a\0\0\x01", b"\0" * 6, b"\x0a\0\0\x02"))
frames['vlan'] = eth(0x8100, struct.pack("!HH", 0x2005, 0x0800) + ip4(17, udp(1, 2, b"x")))
frames['vlan vlan'] = eth(0x8100, struct.pack("!HH", 5, 0x8100) + struct.pack("!HH", 6, 0x0800) + ip4(17, udp(1, 2, b"x")))
frames['mpls'] = eth(0x8847, struct.pack("!I", (16 << 12) | (1 << 8) | 64) + ip4(17, udp(1, 2, b"x")))
frames['icmpv6 echo'] = eth(0x86dd, ip6(58, struct.pack("!BBHHH", 128, 0, 0, 1, 1) + b"ping"))
frames['icmpv6 unreach'] = eth(0x86dd, ip6(58, struct.pack("!BBHI", 1, 0, 0, 0) + ip6(17, udp(1, 2, b""))))
frames['icmpv6 ns'] = eth(0x86dd, ip6(58, struct.pack("!BBHI16s", 135, 0, 0, 0, b"\x20\x01" + b"\0" * 13 + b"\x02") + bytes([1, 1, 2, 0, 0, 0, 0, 2])))
frames['icmpv6 ra'] = eth(0x86dd, ip6(58, struct.pack("!BBHBBHII", 134, 0, 0, 64, 0, 1800, 0, 0) + bytes([3, 4, 64, 0xc0]) + struct.pack("!III", 100, 50, 0) + b"\x20\x01" + b"\0" * 14 + bytes([5, 1, 0, 0]) + struct.pack("!I", 1500)))
frames['ipv6 hbh+routing'] = eth(0x86dd, ip6(0, bytes([43, 0, 1, 4, 0, 0, 0, 0]) + bytes([17, 0, 0, 0, 0, 0, 0, 0]) + udp(1, 2, b"hello")))
frames['ipv6 fragment'] = eth(0x86dd, ip6(44, struct.pack("!BBHI", 17, 0, 1, 7) + udp(1, 2, b"frag")))
frames['dns'] = eth(0x0800, ip4(17, udp(5353, 53, struct.pack("!HHHHHH", 1, 0x0100, 1, 0, 0, 0) + b"\x03www\x07example\x03com\x00" + struct.pack("!HH", 1, 1))))
frames['dns answer'] = eth(0x0800, ip4(17, udp(53, 5353, struct.pack("!HHHHHH", 1, 0x8180, 1, 1, 0, 0) + b"\x03www\x07example\x03com\x00" + struct.pack("!HH", 1, 1) + b"\xc0\x0c" + struct.pack("!HHIH", 1, 1, 60, 4) + b"\x01\x02\x03\x04")))
frames['rip'] = eth(0x0800, ip4(17, udp(520, 520, struct.pack("!BBH", 2, 2, 0) + struct.pack("!HH4s4s4sI", 2, 0, b"\x0a\0\0\0", b"\xff\0\0\0", b"\0" * 4, 1))))
frames['vxlan'] = eth(0x0800, ip4(17, udp(1, 4789, struct.pack("!II", 0x08000000, 5 << 8) + eth(0x0800, ip4(17, udp(1, 2, b"x"))))))
frames['gre routing'] = eth(0x0800, ip4(47, struct.pack("!HHHH", 0x4000, 0x0800, 0, 0) + struct.pack("!HBB", 0x0800, 0, 4) + b"\x01\x02\x03\x04" + struct.pack("!HBB", 0, 0, 0) + ip4(17, udp(1, 2, b"x"))))
frames['lldp org'] = eth(0x88cc, tlv(1, b"\x04\x02\0\0\0\0\x01") + tlv(2, b"\x02" + b"1") + tlv(3, b"\x00\x78") + tlv(7, b"\x00\x14\x00\x14") + tlv(8, b"\x05\x01\x0a\0\0\x01\x02\0\0\0\x01\0") + tlv(127, b"\x00\x12\x0f\x01abc") + tlv(0, b""), dst=b"\x01\x80\xc2\x00\x00\x0e")
frames['tcp unknown opt+payload'] = eth(0x0800, ip4(6, tcp(1, 2, bytes([99, 6, 1, 2, 3, 4, 0, 0]), b"P" * 300)))
frames['icmpv6 too big'] = eth(0x86dd, ip6(58, struct.pack("!BBHI", 2, 0, 0, 1280) + ip6(17, udp(1, 2, b"x"))))
frames['icmpv6 time exceeded'] = eth(0x86dd, ip6(58, struct.pack("!BBHI", 3, 0, 0, 0) + ip6(17, udp(1, 2, b"x"))))
CORRUPT = '--corrupt' in sys.argv
seen = {}
def attempt (what, f, label, n):
  try: f()
  except RecursionError: pass
  except BaseException as e:
    tb = traceback.extract_tb(e.__traceback__)
    last = [t for t in tb if '/pox/' in t.filename][-1] if any('/pox/' in t.filename for t in tb) else tb[-1]
    key = (label, what, type(e).__name__, os.path.basename(last.filename), last.lineno)
    if key not in seen: seen[key] = (n, str(e)[:70], last.line)
def variants (fr):
  for n in range(14, len(fr) + 1): yield n, fr[:n]
  if CORRUPT:
    for i in range(12, len(fr)):
      for v in (0, 1, 2, 3, 4, 5, 6, 7, 8, 0x0f, 0x10, 0x3f, 0x40, 0x7f, 0x80, 0xc0, 0xf0, 0xfe, 0xff, fr[i] ^ 1, fr[i] ^ 0x80, (fr[i] + 1) & 255, (fr[i] - 1) & 255):
        if v != fr[i]: yield -(i * 1000 + v), fr[:i] + bytes([v]) + fr[i + 1:]
import logging; logging.disable(logging.CRITICAL)
for label, fr in sorted(frames.items()):
  for n, raw in variants(fr):
    box = {}
    def parse (): box['p'] = ethernet(raw)
    attempt('parse', parse, label, n)
    p = box.get('p')
    if p is None: continue
    attempt('str', lambda: str(p), label, n)
    attempt('dump', lambda: p.dump(), label, n)
    attempt('pack', lambda: p.pack(), label, n)
    x = p
    while x is not None and not isinstance(x, bytes):
      attempt('str(layer)', lambda: str(x), label, n)
      x = getattr(x, 'next', None)
for k in sorted(seen):
  print("%-18s %-10s %-16s %s:%s  (first at %d) %s | %s" % (k[0], k[1], k[2], k[3], k[4], seen[k][0], seen[k][1], (seen[k][2] or '').strip()[:70]))
print("distinct failing sites:", len(seen))
sys.stdout.flush(); os._exit(0)
