"""Triage C15: frames for which ethernet() raises instead of returning a partially parsed result.
Run: cd /repo && timeout 90 /venv/bin/python -u /verif/triage/c15_truncation.py"""
import sys, os, struct; sys.path.insert(0, os.path.dirname(__file__))
from _boot import done
from pox.lib.packet import ethernet
E = b'\x00\x00\x00\x00\x00\x02' + b'\x00\x00\x00\x00\x00\x01'
def eth (etype, body): return E + struct.pack("!H", etype) + body
def ip4 (proto, body):
  tot = 20 + len(body)
  return struct.pack("!BBHHHBBHII", 0x45, 0, tot, 1, 0, 64, proto, 0, 0x01020304, 0x05060708) + body
CASES = [
 ("GRE with key-present flag but no key word", eth(0x0800, ip4(47, struct.pack("!HH", 0x2000, 0x0800)))),
 ("GRE with checksum-present flag but nothing after the first word", eth(0x0800, ip4(47, struct.pack("!HH", 0x8000, 0x0800)))),
 ("EAP request that ends after the 4-byte header", eth(0x888e, struct.pack("!BBH", 1, 0, 4) + struct.pack("!BBH", 1, 7, 4))),
 ("ICMP destination-unreachable carrying 28 bytes", eth(0x0800, ip4(1, struct.pack("!BBH", 3, 1, 0) + b'\0' * 4 + ip4(17, b'\0' * 8)[:28]))),
 ("ICMP time-exceeded carrying 28 bytes", eth(0x0800, ip4(1, struct.pack("!BBH", 11, 0, 0) + b'\0' * 4 + ip4(17, b'\0' * 8)[:28]))),
 ("LLDP whose first TLV is one byte short", eth(0x88cc, struct.pack("!H", (1 << 9) | 7) + b'\x04' + b'\0' * 5 + b'\0' * 0)),
 ("LLDP chassis-id TLV with an empty body", eth(0x88cc, struct.pack("!H", (1 << 9) | 0) + struct.pack("!H", (2 << 9) | 2) + b'\x07a' + struct.pack("!H", (3 << 9) | 2) + b'\0\x78')),
 ("LLDP with a 1-byte TTL TLV", eth(0x88cc, struct.pack("!H", (1 << 9) | 7) + b'\x04' + b'\0' * 6 + struct.pack("!H", (2 << 9) | 2) + b'\x07a' + struct.pack("!H", (3 << 9) | 1) + b'\x78')),
 ("LLDP with a 2-byte organisationally-specific TLV", eth(0x88cc, struct.pack("!H", (1 << 9) | 7) + b'\x04' + b'\0' * 6 + struct.pack("!H", (2 << 9) | 2) + b'\x07a' + struct.pack("!H", (3 << 9) | 2) + b'\0\x78' + struct.pack("!H", (127 << 9) | 2) + b'ab' + b'\0\0')),
 ("LLDP with an empty management-address TLV", eth(0x88cc, struct.pack("!H", (1 << 9) | 7) + b'\x04' + b'\0' * 6 + struct.pack("!H", (2 << 9) | 2) + b'\x07a' + struct.pack("!H", (3 << 9) | 2) + b'\0\x78' + struct.pack("!H", (8 << 9) | 0) + b'\0\0')),
]
ok = True
for name, raw in CASES:
  try:
    p = ethernet(raw); str(p); p.dump()
    print("PASS", name)
  except Exception as e:
    print("FAIL", name, "->", type(e).__name__, str(e)[:70]); ok = False
done(ok)
