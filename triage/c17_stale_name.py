"""C17: after a port number is modified (or deleted and re-added) with another name / hardware address, the old name and
address must no longer be members of the per-connection port view.  Run with cwd=/repo, PYTHONPATH=/repo."""
import sys, os
sys.path.insert(0, os.path.dirname(os.path.abspath(__file__)))
from _boot import done
from pox.openflow.of_01 import PortCollection
import pox.openflow.libopenflow_01 as of
from pox.lib.addresses import EthAddr

def port (no, name, mac):
  p = of.ofp_phy_port(); p.port_no = no; p.name = name; p.hw_addr = EthAddr(mac); return p

orig = PortCollection(); orig._update(port(1, 'eth1', '00:00:00:00:00:01')); orig._update(port(2, 'eth2', '00:00:00:00:00:02'))
view = PortCollection(); view._chain = orig
ok = True
def expect (what, got, want):
  global ok
  if got != want: ok = False; print("MISMATCH %s: got %r, want %r" % (what, got, want))
# port 1 modified: new name and address
view._update(port(1, 'eth9', '00:00:00:00:00:09'))
expect("view[1].name", view[1].name, 'eth9')
expect("'eth9' in view", 'eth9' in view, True)
expect("'eth1' in view after rename", 'eth1' in view, False)
expect("old MAC in view after change", EthAddr('00:00:00:00:00:01') in view, False)
expect("len", len(view), 2)
# port 2 deleted and re-added under another name
view._forget(port(2, 'eth2', '00:00:00:00:00:02'))
expect("'eth2' in view after delete", 'eth2' in view, False)
view._update(port(2, 'veth7', '00:00:00:00:00:07'))
expect("'veth7' in view", 'veth7' in view, True)
expect("'eth2' in view after delete + re-add", 'eth2' in view, False)
expect("original ports unchanged", sorted(p.name for p in orig.values()), ['eth1', 'eth2'])
done(ok)
