"""Triage C17: _incoming_stats_reply mismatch path and no-handler path raise.
Run: cd /repo && timeout 60 /venv/bin/python -u /verif/triage/c17_stats.py"""
import sys, os; sys.path.insert(0, os.path.dirname(__file__))
from _boot import done
import pox.openflow.libopenflow_01 as of
from pox.openflow import of_01
from pox.openflow.of_01 import Connection
fired = []
c = Connection.__new__(Connection); c._previous_stats = []; c.ID = 1; c.dpid = 1
class Nexus(object):
  def raiseEventNoErrors (self, *a, **k): pass
c.ofnexus = Nexus()
c.raiseEventNoErrors = lambda ev, *a, **k: fired.append(ev.__name__ if isinstance(ev, type) else type(ev).__name__)
ok = True
try:
  p1 = of.ofp_stats_reply(xid=1, type=of.OFPST_PORT, body=[of.ofp_port_stats(port_no=1)]); p1.is_last_reply = False
  fl = of.ofp_stats_reply(xid=2, type=of.OFPST_FLOW, body=[of.ofp_flow_stats()])
  c._incoming_stats_reply(p1)
  c._incoming_stats_reply(fl)     # complete reply of another request arrives in between
  r = 'FlowStatsReceived' in fired
  print("PASS" if r else "FAIL", "complete flow reply after a dangling port part fires its event:", fired); ok &= r
except Exception as e:
  print("FAIL mismatch path ->", type(e).__name__, e); ok = False
try:
  c._previous_stats = []
  v = of.ofp_stats_reply(xid=3, type=of.OFPST_VENDOR, body=b'')
  c._incoming_stats_reply(v)
  print("PASS no-handler path returns"); 
except Exception as e:
  print("FAIL no-handler path ->", type(e).__name__, e); ok = False
done(ok)
