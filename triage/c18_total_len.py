"""Triage for C18 finding: send_packet_in reports truncated length as total_len.
Run: cd /repo && timeout 60 /venv/bin/python -u /verif/triage/c18_total_len.py"""
import sys, os; sys.path.insert(0, os.path.dirname(__file__))
from _boot import done
from pox.datapaths.switch import SoftwareSwitchBase
sent = []
class S(SoftwareSwitchBase):
  def send(self, msg, connection=None): sent.append(msg)
s = S(dpid=1)
s.send_packet_in(in_port=1, buffer_id=3, packet=b'x'*114, data_length=20)
m = sent[-1]
print("total_len", m.total_len, "len(data)", len(m.data), "(expect 114, 20)")
done(m.total_len == 114 and len(m.data) == 20)
