"""Triage C19: when a link is withdrawn, listeners of LinkEvent(removed) (the spanning-tree component) must see an
adjacency without it; _delete_links announced removals before popping them, so the tree was recomputed on stale data.
Run: cd /repo && timeout 60 /venv/bin/python -u /verif/triage/c19_delete_links_order.py"""
import sys, os; sys.path.insert(0, os.path.dirname(__file__))
from _boot import done
from pox.core import core
import pox.openflow.discovery as D
import pox.openflow.spanning_tree as ST
d = D.Discovery.__new__(D.Discovery)
d._eventMixin_events = set([D.LinkEvent]); d.adjacency = {}
core.register("openflow_discovery", d)
L = D.Discovery.Link
# triangle 1-2-3, all links bidirectional
for a, pa, b, pb in ((1, 1, 2, 1), (2, 2, 3, 1), (1, 2, 3, 2)):
  d.adjacency[L(a, pa, b, pb)] = 0; d.adjacency[L(b, pb, a, pa)] = 0
seen = []
def on_link (e):
  if e.removed:
    t = ST._calc_spanning_tree()
    uses = any((w == e.link.dpid2 and p == e.link.port1) for (w, p) in t.get(e.link.dpid1, ()))
    seen.append((str(e.link), uses))
d.addListener(D.LinkEvent, on_link)
d._delete_links([L(1, 1, 2, 1), L(2, 1, 1, 1)])      # the 1<->2 cable dies
print(seen)
ok = not any(uses for _, uses in seen)
print("tree recomputed in the removal handler still uses the withdrawn link:", not ok)
done(ok)
