"""C19: a line of four switches A-B-C-D (hosts on A and D).  The middle link B-C times out and is discovered again, one
direction at a time, as discovery always does.  After every change the flood-enabled inter-switch ports must form a forest
spanning the connected component - here: both ends of every bidirectional link keep flooding.  Also: when a link goes away
for good its former ports are host-facing and must flood again.  Run with cwd=/repo, PYTHONPATH=/repo."""
import sys, os
sys.path.insert(0, os.path.dirname(os.path.abspath(__file__)))
from _boot import done
from pox.core import core
import pox.openflow.libopenflow_01 as of
from pox.openflow.discovery import Discovery, LinkEvent
import pox.openflow.spanning_tree as st

class Port (object):
  def __init__ (self, no): self.port_no = no; self.hw_addr = of.EthAddr("00:00:00:00:00:%02x" % no); self.config = 0
class Con (object):
  def __init__ (self, dpid, nports):
    self.dpid = dpid; self.connect_time = 0; self.ports = dict((i, Port(i)) for i in range(1, nports + 1)); self.sent = []
  def send (self, msg):
    self.sent.append(msg)
    if isinstance(msg, of.ofp_port_mod): self.ports[msg.port_no].config = (self.ports[msg.port_no].config & ~msg.mask) | (msg.config & msg.mask)
class Nexus (object):
  def __init__ (self): self.cons = {}
  def getConnection (self, dpid): return self.cons.get(dpid)
class Disc (object):
  send_cycle_time = 1
  def __init__ (self): self.adjacency = {}
  def is_edge_port (self, dpid, port): return Discovery.is_edge_port(self, dpid, port)

nexus = Nexus(); disc = Disc()
core.register("openflow", nexus); core.register("openflow_discovery", disc)
st.Timer = lambda *a, **k: None                      # the coalesced features request is irrelevant here
for d in (1, 2, 3, 4): nexus.cons[d] = Con(d, 2)
Link = Discovery.Link
def add (a, pa, b, pb):
  l = Link(a, pa, b, pb); disc.adjacency[l] = 0.0; st._handle_LinkEvent(LinkEvent(True, l))
def rem (a, pa, b, pb):
  l = Link(a, pa, b, pb); del disc.adjacency[l]; st._handle_LinkEvent(LinkEvent(False, l))
def floods (d, p): return not (nexus.cons[d].ports[p].config & of.OFPPC_NO_FLOOD)
ok = True
def expect (what, cond):
  global ok
  if not cond: ok = False; print("MISMATCH: " + what)
# A:2-B:1, B:2-C:1, C:2-D:1 discovered direction by direction
for a, pa, b, pb in ((1, 2, 2, 1), (2, 2, 3, 1), (3, 2, 4, 1)):
  add(a, pa, b, pb); add(b, pb, a, pa)
for d, p in ((1, 2), (2, 1), (2, 2), (3, 1), (3, 2), (4, 1)): expect("initially: switch %d port %d floods" % (d, p), floods(d, p))
# the middle link falls silent (both directions expire) ...
rem(2, 2, 3, 1); rem(3, 1, 2, 2)
expect("B-C gone: (2,2) is host-facing again and floods", floods(2, 2)); expect("B-C gone: (3,1) is host-facing again and floods", floods(3, 1))
# ... and comes back
add(2, 2, 3, 1); add(3, 1, 2, 2)
expect("B-C back: (2,2) floods (the only path between {A,B} and {C,D})", floods(2, 2)); expect("B-C back: (3,1) floods", floods(3, 1))
done(ok)
