"""C19: a datapath reconnects before its stale connection is closed (the history property C09 names).  The discovery sender
must keep probing the ports of the *live* connection after the stale one finally goes down - otherwise no probe travels
over the switch's links any more, they time out and are never re-discovered.  cwd=/repo, PYTHONPATH=/repo."""
import sys, os
sys.path.insert(0, os.path.dirname(os.path.abspath(__file__)))
from _boot import done
from pox.core import core
import pox.openflow.libopenflow_01 as of
import pox.openflow.discovery as disc
from pox.lib.addresses import EthAddr
from pox.lib.revent import EventMixin, Event

sent = []
class Con (object):
  def __init__ (self, dpid): self.dpid = dpid
class Nexus (EventMixin):
  _eventMixin_events = set()
  def __init__ (self): self.cons = {}
  @property
  def connections (self): return self.cons
  def getConnection (self, dpid): return self.cons.get(dpid)
  def sendToDPID (self, dpid, data): sent.append(dpid); return dpid in self.cons
nexus = Nexus(); core.register("openflow", nexus)
disc.Timer = lambda *a, **k: type('T', (), {'cancel': lambda s: None})()
class Ev (object):
  def __init__ (self, con, ports=()): self.connection = con; self.dpid = con.dpid; self.ofp = type('F', (), {'ports': list(ports)})()
def port (no):
  p = of.ofp_phy_port(); p.port_no = no; p.hw_addr = EthAddr("00:00:00:00:01:%02x" % no); return p
s = disc.LLDPSender(send_cycle_time=1)
def queued (dpid): return sorted(i.port_num for i in s._this_cycle + s._next_cycle if i.dpid == dpid)
ok = True
old = Con(1); nexus.cons[1] = old
s._handle_openflow_ConnectionUp(Ev(old, [port(1), port(2)]))
print("first connection up: probing ports", queued(1))
new = Con(1); nexus.cons[1] = new                     # the switch reconnects; of_01 registers the newer connection ...
s._handle_openflow_ConnectionUp(Ev(new, [port(1), port(2)]))
print("reconnected:         probing ports", queued(1))
# ... and only later notices that the stale one is dead: nexus._disconnect(dpid, old) leaves the newer entry alone
s._handle_openflow_ConnectionDown(Ev(old))
print("stale one closed:    probing ports", queued(1), "(registered connection is the new one: %s)" % (nexus.cons.get(1) is new))
if queued(1) != [1, 2]:
  ok = False; print("MISMATCH: the live connection's ports are no longer probed - its links will expire and never come back")
# control: an ordinary disconnect does stop the probing
del nexus.cons[1]; s._handle_openflow_ConnectionDown(Ev(new))
if queued(1) != []: ok = False; print("MISMATCH: ports of a switch that is gone are still probed")
done(ok)
