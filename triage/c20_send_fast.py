"""Triage C20: RecocoIOWorker.send_fast compares the sent count with the (empty) send buffer and keeps data[l] (an int).
Run: cd /repo && timeout 60 /venv/bin/python -u /verif/triage/c20_send_fast.py"""
import sys, os; sys.path.insert(0, os.path.dirname(__file__))
from _boot import done
from pox.lib.ioworker import RecocoIOWorker
class Sock(object):
  def __init__ (self, cap): self.cap = cap; self.got = b''
  def send (self, data, flags=0):
    n = min(self.cap, len(data)); self.got += data[:n]; return n
class P(object):
  def ping (self): pass
ok = True
for cap, name in ((3, "partial write"), (100, "complete write")):
  w = RecocoIOWorker(Sock(cap)); w.pinger = P()
  try:
    w.send_fast(b'abcdefgh')
    total = w.socket.got + w.send_buf
    r = total == b'abcdefgh'
    print("PASS" if r else "FAIL", name, "accepted+queued =", total); ok &= r
  except Exception as e:
    print("FAIL", name, "->", type(e).__name__, e); ok = False
done(ok)
