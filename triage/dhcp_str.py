"""triage: str() of a parsed DHCP packet (C15: 'the parse result can always be printed')"""
import unittest
from pox.lib.packet.dhcp import dhcp
raw = bytes(236) + b'\x63\x82\x53\x63' + bytes([53, 1, 1, 255])
d = dhcp(raw=raw)
print("parsed:", d.parsed)
try:
  print(str(d))
except Exception as e:
  print("str() raised", type(e).__name__, e)
