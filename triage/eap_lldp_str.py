"""triage (C15): printing parse results.  (1) EAP request with a type byte that is not in eap.type_names;
(2) LLDP chassis-id / port-id TLV of subtype MAC whose id is not 6 bytes long.  Both classes have their own __str__
(outside packet_base's catch-all).  Run with cwd=/repo and PYTHONPATH=/repo."""
import sys, os, struct
sys.path.insert(0, os.path.dirname(os.path.abspath(__file__))); import _boot
from pox.lib.packet.ethernet import ethernet
def eth (etype, payload, dst=b"\x02\0\0\0\0\x01"): return dst + b"\x02\0\0\0\0\x02" + struct.pack("!H", etype) + payload
def tlv (t, v): return struct.pack("!H", (t << 9) | len(v)) + v
cases = {
 'eap type 0': eth(0x888e, struct.pack("!BBH", 1, 0, 9) + struct.pack("!BBHB", 1, 7, 9, 0) + b"user"),
 'lldp chassis mac len 5': eth(0x88cc, tlv(1, b"\x04\x02\0\0\0\0") + tlv(2, b"\x02" + b"1") + tlv(3, b"\x00\x78") + tlv(0, b""), dst=b"\x01\x80\xc2\x00\x00\x0e"),
 'lldp port mac len 2': eth(0x88cc, tlv(1, b"\x04\x02\0\0\0\0\x01") + tlv(2, b"\x04" + b"1") + tlv(3, b"\x00\x78") + tlv(0, b""), dst=b"\x01\x80\xc2\x00\x00\x0e"),
}
bad = 0
for name, raw in sorted(cases.items()):
  p = ethernet(raw)
  for what, f in (('dump', lambda: p.dump()), ('str(innermost)', lambda: str([x for x in p][-1]) if hasattr(p, '__iter__') else str(p))):
    try: f()
    except Exception as e:
      bad += 1; print("%s: %s raised %s %s" % (name, what, type(e).__name__, e))
  x = p
  while x is not None and not isinstance(x, bytes):
    try: str(x)
    except Exception as e: bad += 1; print("%s: str(%s) raised %s %s" % (name, type(x).__name__, type(e).__name__, e))
    for t in getattr(x, 'tlvs', []):
      try: str(t)
      except Exception as e: bad += 1; print("%s: str(%s) raised %s %s" % (name, type(t).__name__, type(e).__name__, e))
    x = getattr(x, 'next', None)
print("printing failures:", bad)
sys.stdout.flush(); os._exit(0)
