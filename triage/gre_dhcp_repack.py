"""triage (C15): re-serialising parse results.  (1) GRE with a routing section: parse stores 4-tuples (af, offset, len, data),
hdr() unpacked 3 -> ValueError; and a checksum/offset word taken from the wire made hdr() assert on re-pack.
(2) DHCP: parse() returning early (bad magic / oversized hlen) left self.options unset -> AttributeError in pack().
Run with cwd=/repo and PYTHONPATH=/repo."""
import sys, os, struct
sys.path.insert(0, os.path.dirname(os.path.abspath(__file__))); import _boot
from pox.lib.packet.ethernet import ethernet
def eth (etype, payload): return b"\x02\0\0\0\0\x01" + b"\x02\0\0\0\0\x02" + struct.pack("!H", etype) + payload
def ip4 (proto, payload):
  return struct.pack("!BBHHHBBH4s4s", 0x45, 0, 20 + len(payload), 1, 0, 64, proto, 0, b"\x0a\x00\x00\x01", b"\x0a\x00\x00\x02") + payload
def udp (sp, dp, payload): return struct.pack("!HHHH", sp, dp, 8 + len(payload), 0) + payload
gre = eth(0x0800, ip4(47, struct.pack("!HHHH", 0x4000, 0x0800, 0, 0) + struct.pack("!HBB", 0x0800, 0, 4) + b"\x01\x02\x03\x04" + struct.pack("!HBB", 0, 0, 0) + ip4(17, udp(1, 2, b"x"))))
dh = struct.pack("!BBBBIHH4s4s4s4s16s64s128s", 1, 1, 6, 0, 0x1234, 0, 0, b"\0"*4, b"\0"*4, b"\0"*4, b"\0"*4, b"\x02\0\0\0\0\x02" + b"\0"*10, b"\0"*64, b"\0"*128) + b"\x63\x82\x53\x00" + bytes([53, 1, 1, 255])
dhcp = eth(0x0800, ip4(17, udp(68, 67, dh)))
bad = 0
for name, raw in (('gre with routing', gre), ('dhcp with bad magic', dhcp)):
  p = ethernet(raw)
  try: p.pack()
  except Exception as e: bad += 1; print("%s: pack() of the parse result raised %s: %s" % (name, type(e).__name__, e))
print("re-serialisation failures:", bad)
sys.stdout.flush(); os._exit(0)
