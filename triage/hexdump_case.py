import sys, os
sys.path.insert(0, os.path.dirname(__file__)); import _boot
from pox.lib.util import hexdump
import pox.openflow.libopenflow_01 as of
try:
  print(hexdump(b"abc"))
  print("hexdump ok")
except Exception as e:
  print("hexdump(bytes) raises", type(e).__name__, e)
try:
  m = of.ofp_echo_request(body=b"ping")
  print(str(m)[:60])
except Exception as e:
  print("str(echo_request with body) raises", type(e).__name__, e)
try:
  m = of.ofp_error(type=1, code=1, data=b"12345678")
  print(str(m)[:60])
except Exception as e:
  print("str(ofp_error with data) raises", type(e).__name__, e)
sys.stdout.flush(); os._exit(0)
