"""triage (C15): an IPv6 frame with two chained extension headers, cut inside the second one.
Before the fix ipv6.parse reduced the remaining length by len(header) - the header's length *field* (units of 8 octets) -
instead of the bytes consumed, so the length test in front of the next header passed and struct.unpack_from raised
struct.error out of ethernet(raw).  Run with cwd=/repo and PYTHONPATH=/repo."""
import sys, os, struct
sys.path.insert(0, os.path.dirname(os.path.abspath(__file__))); import _boot
from pox.lib.packet.ethernet import ethernet
def udp (sp, dp, payload): return struct.pack("!HHHH", sp, dp, 8 + len(payload), 0) + payload
def ip6 (nh, payload):
  return struct.pack("!IHBB16s16s", 0x60000000, len(payload), nh, 64, b"\x20\x01" + b"\x00" * 13 + b"\x01", b"\x20\x01" + b"\x00" * 13 + b"\x02") + payload
fr = b"\x02\0\0\0\0\x01" + b"\x02\0\0\0\0\x02" + struct.pack("!H", 0x86dd) + ip6(0, bytes([43, 0, 1, 4, 0, 0, 0, 0]) + bytes([17, 0, 0, 0, 0, 0, 0, 0]) + udp(1, 2, b"hello"))
bad = 0
for n in range(14, len(fr) + 1):
  try: ethernet(fr[:n])
  except Exception as e:
    bad += 1; print("length %d: parse raised %s: %s" % (n, type(e).__name__, e))
print("truncations that made parse raise:", bad)
sys.stdout.flush(); os._exit(0)
