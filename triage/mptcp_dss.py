"""triage (C14/C15): MPTCP DSS option (TCP option kind 30, subtype 2) that carries a data sequence mapping.
(1) unpack_new advances by ack_length after reading the DSN; (2) pack() calls struct.unpack_from on the DSN.  cwd=/repo PYTHONPATH=/repo"""
import sys, os, struct
sys.path.insert(0, os.path.dirname(os.path.abspath(__file__))); import _boot
from pox.lib.packet.ethernet import ethernet
import logging; logging.disable(logging.CRITICAL)
def eth (etype, payload): return b"\x02\0\0\0\0\x01" + b"\x02\0\0\0\0\x02" + struct.pack("!H", etype) + payload
def ip4 (proto, payload):
  return struct.pack("!BBHHHBBH4s4s", 0x45, 0, 20 + len(payload), 1, 0, 64, proto, 0, b"\x0a\x00\x00\x01", b"\x0a\x00\x00\x02") + payload
def tcp (opts, payload):
  return struct.pack("!HHIIBBHHH", 1, 2, 1, 2, (5 + len(opts) // 4) << 4, 0x18, 1000, 0, 0) + opts + payload
# DSS: flags = has_dsn (4-byte DSN), no ack: length 4 + 4 + 8 = 16
dss = struct.pack("!BBBB", 30, 16, 2 << 4, 0x04) + struct.pack("!I", 0x11223344) + struct.pack("!IHH", 0x55667788, 100, 0xabcd)
fr = eth(0x0800, ip4(6, tcp(dss, b"data")))
p = ethernet(fr); t = p.find('tcp')
bad = 0
o = [x for x in t.options if x.type == 30]
print("parsed:", [(x.dsn, x.seq, x.length, x.csum) for x in o] if o else "options not parsed")
if o and (o[0].dsn, o[0].seq, o[0].length, o[0].csum) != (0x11223344, 0x55667788, 100, 0xabcd): bad += 1; print("DSS fields differ from the wire")
try:
  out = p.pack()
  if out[54:70] != dss: bad += 1; print("re-packed option differs:", out[54:70])
except Exception as e:
  bad += 1; print("pack() raised %s: %s" % (type(e).__name__, e))
print("failures:", bad)
sys.stdout.flush(); os._exit(0)
