"""triage (C14/C15): a TCP option of unknown kind.  (1) tcp_opt.unpack_new kept `length` bytes of value instead of length-2,
so re-packing wrote two bytes too many (and raised struct.error for length >= 254); (2) parse_options accepted an option that
starts inside the header but ends in the payload, after which hdr() needed a data offset > 15 and raised struct.error.
cwd=/repo PYTHONPATH=/repo"""
import sys, os, struct
sys.path.insert(0, os.path.dirname(os.path.abspath(__file__))); import _boot
from pox.lib.packet.ethernet import ethernet
import logging; logging.disable(logging.CRITICAL)
def eth (etype, payload): return b"\x02\0\0\0\0\x01" + b"\x02\0\0\0\0\x02" + struct.pack("!H", etype) + payload
def ip4 (proto, payload):
  return struct.pack("!BBHHHBBH4s4s", 0x45, 0, 20 + len(payload), 1, 0, 64, proto, 0, b"\x0a\x00\x00\x01", b"\x0a\x00\x00\x02") + payload
def tcp (opts, payload):
  return struct.pack("!HHIIBBHHH", 1, 2, 1, 2, (5 + len(opts) // 4) << 4, 0x18, 1000, 0, 0) + opts + payload
bad = 0
good = eth(0x0800, ip4(6, tcp(bytes([99, 6, 1, 2, 3, 4, 0, 0]), b"P" * 300)))
p = ethernet(good); t = p.find('tcp')
print("option 99 with 4 value bytes parsed as", [(o.type, o.val) for o in t.options if o.type == 99])
if t.hdr(b"")[20:28] != bytes([99, 6, 1, 2, 3, 4, 0, 0]): bad += 1; print("re-packed options differ:", t.hdr(b"")[20:])
for ln in (200, 254):
  fr = eth(0x0800, ip4(6, tcp(bytes([99, ln, 1, 2, 3, 4, 0, 0]), b"P" * 300)))
  q_ = ethernet(fr)
  try: q_.pack()
  except Exception as e: bad += 1; print("option length %d: pack() raised %s: %s" % (ln, type(e).__name__, e))
# (3) the same slice in mp_unknown (MPTCP option, kind 30, with a subtype nobody registered)
mp = eth(0x0800, ip4(6, tcp(bytes([30, 6, 0xf0, 2, 3, 4, 0, 0]), b"P" * 30)))
t = ethernet(mp).find('tcp')
got = [o for o in t.options if o.type == 30]
print("MPTCP unknown subtype parsed data:", [o.data for o in got])
if t.hdr(b"")[20:28] != bytes([30, 6, 0xf0, 2, 3, 4, 0, 0]): bad += 1; print("re-packed MPTCP option differs:", t.hdr(b"")[20:])
print("failures:", bad)
sys.stdout.flush(); os._exit(0)
