"""triage (C15): nested 802.1Q tags; how deep before parse raises RecursionError?  cwd=/repo PYTHONPATH=/repo"""
import sys, os, struct
sys.path.insert(0, os.path.dirname(os.path.abspath(__file__))); import _boot
from pox.lib.packet.ethernet import ethernet
import logging; logging.disable(logging.CRITICAL)
def frame (n):
  return b"\x02\0\0\0\0\x01" + b"\x02\0\0\0\0\x02" + struct.pack("!H", 0x8100) + struct.pack("!HH", 5, 0x8100) * (n - 1) + struct.pack("!HH", 5, 0x0800) + b"\0" * 20
first = None
for n in range(1, 700):
  try: ethernet(frame(n))
  except RecursionError as e:
    first = n; break
  except Exception as e:
    print("n=%d other exception %s %s" % (n, type(e).__name__, e)); break
worst = None
for n in (331, 332, 340, 360, 372):
  try:
    p = ethernet(frame(n)); str(p); p.dump(); p.pack()
  except BaseException as e:
    worst = (n, type(e).__name__); break
print("parse+str+dump+pack at depths 331..372:", "ok" if worst is None else "failed %s" % (worst,))
print("first depth with RecursionError:", first, "frame length:", len(frame(first)) if first else None, "recursion limit", sys.getrecursionlimit())
sys.stdout.flush(); os._exit(0)
